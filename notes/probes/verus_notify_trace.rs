use vstd::prelude::*;
use std::sync::Arc;
use std::time::{Instant, Duration};
verus! {

pub enum Ev<S, A> {
    Notify(int, S, A),
    Unsub(int),
}

pub trait Subscriber<State, Action>
where State: Send + Sync + Clone, Action: Send + Sync + Clone
{
    spec fn id(&self) -> int;
    fn on_notify(&self, state: &State, action: &Action, Tracked(t): Tracked<&mut Seq<Ev<State, Action>>>)
        ensures *final(t) == old(t).push(Ev::Notify(self.id(), *state, *action));
    fn on_unsubscribe(&self, Tracked(t): Tracked<&mut Seq<Ev<State, Action>>>)
        ensures *final(t) == old(t).push(Ev::Unsub(self.id()));
}

pub open spec fn notify_all<S: Send + Sync + Clone, A: Send + Sync + Clone>(subs: Seq<Arc<dyn Subscriber<S, A>>>, s: S, a: A) -> Seq<Ev<S, A>> {
    Seq::new(subs.len(), |i: int| Ev::Notify(subs[i].id(), s, a))
}

fn notify<State, Action>(subscribers: &Vec<Arc<dyn Subscriber<State, Action>>>, next_state: &State, action: &Action, Tracked(t): Tracked<&mut Seq<Ev<State, Action>>>)
where State: Send + Sync + Clone, Action: Send + Sync + Clone
    ensures *final(t) == *old(t) + notify_all(subscribers@, *next_state, *action)
{
    let ghost t0 = *t;
    for subscriber in it: subscribers.iter()
        invariant
            it.seq().len() == subscribers@.len(),
            forall|i: int| 0 <= i < it.seq().len() ==> *it.seq()[i] == subscribers@[i],
            *t == t0 + notify_all(subscribers@, *next_state, *action).take(it.index@),
    {
        subscriber.on_notify(next_state, action, Tracked(t));
        assert(notify_all(subscribers@, *next_state, *action).take(it.index@ + 1) == notify_all(subscribers@, *next_state, *action).take(it.index@).push(Ev::Notify(subscriber.id(), *next_state, *action)));
    }
    assert(notify_all(subscribers@, *next_state, *action).take(subscribers@.len() as int) == notify_all(subscribers@, *next_state, *action));
}

} // verus!
fn main() {}
