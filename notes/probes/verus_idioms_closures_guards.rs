use vstd::prelude::*;
use std::sync::{Mutex, MutexGuard, LockResult, Arc, PoisonError};
verus! {
#[verifier::external_type_specification] #[verifier::external_body] #[verifier::reject_recursive_types(T)]
pub struct ExMutex<T: ?Sized>(Mutex<T>);
#[verifier::external_type_specification] #[verifier::external_body] #[verifier::reject_recursive_types(T)]
pub struct ExMutexGuard<'a, T: ?Sized + 'a>(MutexGuard<'a, T>);
#[verifier::external_type_specification] #[verifier::external_body] #[verifier::reject_recursive_types(T)]
pub struct ExPoisonError<T>(PoisonError<T>);
pub uninterp spec fn guard_view<'a, T: ?Sized>(g: &MutexGuard<'a, T>) -> &'a T;
pub assume_specification<'a, T: ?Sized>[ Mutex::<T>::lock ](m: &'a Mutex<T>) -> (r: LockResult<MutexGuard<'a, T>>)
    ensures r is Ok;
pub assume_specification<'a, 'b, T: ?Sized>[ <MutexGuard<'a, T> as std::ops::Deref>::deref ](g: &'b MutexGuard<'a, T>) -> (r: &'b T)
    ensures r == guard_view(g);
pub assume_specification<'a, 'b, T: ?Sized>[ <MutexGuard<'a, T> as std::ops::DerefMut>::deref_mut ](g: &'b mut MutexGuard<'a, T>) -> (r: &'b mut T)
    ensures true;

// 1. take through guard temp in if-let
fn t_take(m: &Mutex<Option<u8>>) -> u8 {
    if let Some(tx) = m.lock().unwrap().take() { tx } else { 0 }
}

// 2. named mutable guard: read then write
fn t_selector(m: &Mutex<Option<u8>>, selected: u8) -> (called: bool) {
    let mut last_value = m.lock().unwrap();
    match last_value.as_ref() {
        Some(last) if *last == selected => { false }
        _ => {
            *last_value = Some(selected);
            true
        }
    }
}

// 3. generic closure constructor into opaque type
#[verifier::external_type_specification] #[verifier::external_body]
pub struct ExTask(Task);
pub assume_specification<F: FnOnce() + Send + 'static>[ mk_task::<F> ](f: F) -> Task;

fn t_closure(a: u8) -> Task {
    mk_task(move || { let _b = a; })
}

// 4. option map with closure
fn t_map(o: Option<&u8>) {
    o.map(|x| { let _y = *x; });
}

} // verus!
pub struct Task(Box<dyn FnOnce() + Send>);
pub fn mk_task<F: FnOnce() + Send + 'static>(f: F) -> Task { Task(Box::new(f)) }
fn main() {}
