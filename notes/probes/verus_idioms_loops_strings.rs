use vstd::prelude::*;
use std::sync::{Mutex, MutexGuard, LockResult, Arc, PoisonError};
verus! {
#[verifier::external_type_specification] #[verifier::external_body] #[verifier::reject_recursive_types(T)]
pub struct ExMutex<T: ?Sized>(Mutex<T>);
#[verifier::external_type_specification] #[verifier::external_body] #[verifier::reject_recursive_types(T)]
pub struct ExMutexGuard<'a, T: ?Sized + 'a>(MutexGuard<'a, T>);
#[verifier::external_type_specification] #[verifier::external_body] #[verifier::reject_recursive_types(T)]
pub struct ExPoisonError<T>(PoisonError<T>);
pub uninterp spec fn mutex_view<'a, T: ?Sized>(m: &'a Mutex<T>) -> &'a T;
pub uninterp spec fn guard_view<'a, T: ?Sized>(g: &MutexGuard<'a, T>) -> &'a T;
pub assume_specification<'a, T: ?Sized>[ Mutex::<T>::lock ](m: &'a Mutex<T>) -> (r: LockResult<MutexGuard<'a, T>>)
    ensures r is Ok, guard_view(&r->Ok_0) == mutex_view(m);
pub assume_specification<'a, 'b, T: ?Sized>[ <MutexGuard<'a, T> as std::ops::Deref>::deref ](g: &'b MutexGuard<'a, T>) -> (r: &'b T)
    ensures r == guard_view(g);

pub struct Rx { x: u8 }
impl Rx {
    #[verifier::external_body]
    fn recv(&self) -> Option<u8> { None }
}

// 1. while let
#[verifier::exec_allows_no_decreases_clause]
fn t_while_let(rx: &Rx) -> u8 {
    let mut n = 0u8;
    while let Some(x) = rx.recv() {
        n = x;
        if x == 3 { break; }
    }
    n
}

// 2. cfg!
fn t_cfg() -> u8 { if cfg!(dev) { 1 } else { 2 } }

// 3. match on lock result
fn t_match_lock(m: &Mutex<Vec<u8>>) -> usize {
    match m.lock() {
        Ok(g) => { g.len() }
        Err(e) => { 0 }
    }
}

// 4. &mut Vec param, remove(0), is_empty
fn t_drain(effects: &mut Vec<u8>) -> (n: usize)
    ensures final(effects)@.len() == 0
{
    let mut n = 0usize;
    while !effects.is_empty()
        invariant n + effects@.len() <= usize::MAX
        decreases effects@.len()
    {
        let e = effects.remove(0);
        n += 1;
    }
    n
}

// 5. expect on Result
fn t_expect(r: Result<u8, u8>) -> u8 { r.expect("no") }

// 6. String
fn t_string() -> String { "Dispatch channel is closed".to_string() }

} // verus!
fn main() {}
