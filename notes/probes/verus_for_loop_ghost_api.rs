use vstd::prelude::*;
verus! {
fn sum(v: &Vec<u8>) -> (r: u64)
    requires v.len() < 1000,
    ensures r <= 255 * v.len(),
{
    let mut s: u64 = 0;
    for x in it: v.iter()
        invariant s <= 255 * it.index@,
           it.seq().len() == v.len(),
           forall|i: int| 0 <= i < v.len() ==> *it.seq()[i] == v@[i],
    {
        assert(0 <= it.index@ < v.len());
        assert(x == it.seq()[it.index@]);
        assert(*x == v@[it.index@]);
        s = s + *x as u64;
    }
    s
}
} // verus!
fn main() {}
