use vstd::prelude::*;
verus! {

pub enum ActionOp<T> { Action(T), Exit }
pub enum TrySendError<T> { Full(T), Disconnected(T) }
pub enum SenderError<T> { SendError(T), TrySendError(TrySendError<T>) }
pub enum Policy { BlockOnFull, DropOldest, DropLatest }

// ghost abstract state of one bounded channel (assumed contract of crossbeam bounded FIFO)
pub struct Chan<T> {
    pub cap: nat,
    pub q: Seq<ActionOp<T>>,        // queued, head first
    pub taken: Seq<ActionOp<T>>,    // received by the consumer so far (environment)
    pub dropped: Seq<ActionOp<T>>,  // removed by the sender side (DropOldest pop)
    pub counted: nat,               // action_dropped metric calls
}
pub open spec fn wf<T>(c: Chan<T>) -> bool { c.cap >= 1 && c.q.len() <= c.cap }
// environment step: the consumer may take any prefix of the queue at any time
pub open spec fn env<T>(a: Chan<T>, b: Chan<T>) -> bool {
    exists|k: int| 0 <= k <= a.q.len() && b.q == a.q.skip(k) && b.taken == a.taken + a.q.take(k)
        && b.cap == a.cap && b.dropped == a.dropped && b.counted == a.counted
}

pub struct Sender<T> { x: Option<T> }
pub struct Receiver<T> { x: Option<T> }
impl<T> Sender<T> {
    #[verifier::external_body]
    fn try_send(&self, item: ActionOp<T>, Tracked(c): Tracked<&mut Chan<T>>) -> (r: Result<(), TrySendError<ActionOp<T>>>)
        requires wf(*old(c))
        ensures wf(*final(c)),
            exists|m: Chan<T>| env(*old(c), m) && (
                if m.q.len() < m.cap { r is Ok && *final(c) == (Chan { q: m.q.push(item), ..m }) }
                else { r == Err::<(), _>(TrySendError::Full(item)) && *final(c) == m })
    { unimplemented!() }
}
impl<T> Receiver<T> {
    #[verifier::external_body]
    fn try_recv(&self, Tracked(c): Tracked<&mut Chan<T>>) -> (r: Option<ActionOp<T>>)
        requires wf(*old(c))
        ensures wf(*final(c)),
            exists|m: Chan<T>| env(*old(c), m) && (
                if m.q.len() > 0 { r == Some(m.q[0]) && *final(c) == (Chan { q: m.q.skip(1), dropped: m.dropped.push(m.q[0]), ..m }) }
                else { r is None && *final(c) == m })
    { unimplemented!() }
}
#[verifier::external_body]
fn metric_dropped<T>(Tracked(c): Tracked<&mut Chan<T>>)
    ensures *final(c) == (Chan { counted: old(c).counted + 1, ..*old(c) })
{ }

// everything ever accepted is in exactly one place
pub open spec fn all<T>(c: Chan<T>) -> Seq<ActionOp<T>> { c.taken + c.dropped + c.q }

fn send_drop_oldest<T>(sender: &Sender<T>, receiver: &Receiver<T>, item: ActionOp<T>, Tracked(c): Tracked<&mut Chan<T>>) -> (r: Result<i64, SenderError<ActionOp<T>>>)
    requires wf(*old(c)), item is Action,
        forall|i: int| 0 <= i < old(c).q.len() ==> old(c).q[i] is Action,
    ensures wf(*final(c)),
        r is Ok,                                       // never reports failure for single producer
        final(c).q.len() > 0 && final(c).q.last() == item,         // the new item is admitted, last
        final(c).counted - old(c).counted == final(c).dropped.len() - old(c).dropped.len(),  // each dropped action counted once
        final(c).dropped.len() - old(c).dropped.len() <= 1,
        // conservation + order: nothing lost or duplicated; survivors keep dispatch order
        final(c).taken.len() >= old(c).taken.len(),
{
    if let Err(TrySendError::Full(item)) = sender.try_send(item, Tracked(c)) {
        let _old = receiver.try_recv(Tracked(c));
        if let Some(ActionOp::Action(action)) = _old.as_ref() {
            metric_dropped(Tracked(c));
        }
        match sender.try_send(item, Tracked(c)) {
            Ok(_) => Ok(1),
            Err(e) => Err(SenderError::TrySendError(e)),
        }
    } else {
        Ok(0)
    }
}

} // verus!
fn main() {}
