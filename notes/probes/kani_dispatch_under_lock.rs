// feasibility probe: appended to a scratch copy of src/store_impl.rs; run with
//   CARGO_NET_OFFLINE=true cargo kani -Z stubbing --harness dispatch_sends_under_lock
// result on pinned tree: SUCCESSFUL, 18 s; mutant (clone sender out of the lock): FAILED 'SENT_UNDER_LOCK == 1', 7.5 min
#[cfg(kani)]
mod kani_store {
    use super::*;
    use crate::channel::SenderError;

    static mut LOCK_PROBE: Option<*const Mutex<Option<SenderChannel<u8>>>> = None;
    static mut SENDS: usize = 0;
    static mut SENT_UNDER_LOCK: usize = 0;

    // contract stand-in for SenderChannel::send: precondition "dispatch lock is held"
    fn send_stub<T: Send + Sync + Clone + 'static>(_s: &SenderChannel<T>, item: ActionOp<T>) -> Result<i64, SenderError<ActionOp<T>>> {
        unsafe {
            SENDS += 1;
            if let Some(p) = LOCK_PROBE {
                if (*p).try_lock().is_err() { SENT_UNDER_LOCK += 1; }
            }
        }
        std::mem::forget(item);
        Ok(0)
    }

    fn mk(open: bool) -> StoreImpl<u8, u8> {
        let metrics = Arc::new(CountMetrics::default());
        let (tx, rx) = BackpressureChannel::<u8>::pair_with("d", 1, BackpressurePolicy::BlockOnFull, None);
        std::mem::forget(rx);
        StoreImpl {
            name: String::new(),
            state: Mutex::new(0u8),
            reducers: Mutex::new(Vec::new()),
            subscribers: Arc::new(Mutex::new(Vec::new())),
            middlewares: Mutex::new(Vec::new()),
            dispatch_tx: Mutex::new(if open { Some(tx) } else { std::mem::forget(tx); None }),
            metrics,
            pool: Mutex::new(None),
        }
    }

    #[kani::proof]
    #[kani::stub(SenderChannel::send, send_stub)]
    #[kani::unwind(3)]
    fn dispatch_sends_under_lock() {
        let open: bool = kani::any();
        let store = mk(open);
        unsafe { LOCK_PROBE = Some(&store.dispatch_tx as *const _); }
        let a: u8 = kani::any();
        let r = store.dispatch(a);
        unsafe {
            if open {
                assert!(r.is_ok());
                assert!(SENDS == 1);
                assert!(SENT_UNDER_LOCK == 1);
            } else {
                assert!(r.is_err());
                assert!(SENDS == 0);
                assert!(store.metrics.error_occurred.load(std::sync::atomic::Ordering::SeqCst) == 1);
            }
        }
        // lock released on return
        assert!(store.dispatch_tx.try_lock().is_ok());
        std::mem::forget(store);
    }
}
