use vstd::prelude::*;
use std::sync::{Mutex, MutexGuard, LockResult, Arc, PoisonError};
use std::time::{Instant, Duration};
verus! {

// ---------- assumed std specs ----------
#[verifier::external_type_specification] #[verifier::external_body] #[verifier::reject_recursive_types(T)]
pub struct ExMutex<T: ?Sized>(Mutex<T>);
#[verifier::external_type_specification] #[verifier::external_body] #[verifier::reject_recursive_types(T)]
pub struct ExMutexGuard<'a, T: ?Sized + 'a>(MutexGuard<'a, T>);
#[verifier::external_type_specification] #[verifier::external_body] #[verifier::reject_recursive_types(T)]
pub struct ExPoisonError<T>(PoisonError<T>);
#[verifier::external_type_specification] #[verifier::external_body]
pub struct ExInstant(Instant);

pub uninterp spec fn mutex_view<'a, T: ?Sized>(m: &'a Mutex<T>) -> &'a T;
pub uninterp spec fn guard_view<'a, T: ?Sized>(g: &MutexGuard<'a, T>) -> &'a T;
pub assume_specification<'a, T: ?Sized>[ Mutex::<T>::lock ](m: &'a Mutex<T>) -> (r: LockResult<MutexGuard<'a, T>>)
    ensures r is Ok, guard_view(&r->Ok_0) == mutex_view(m);
pub assume_specification<'a, 'b, T: ?Sized>[ <MutexGuard<'a, T> as std::ops::Deref>::deref ](g: &'b MutexGuard<'a, T>) -> (r: &'b T)
    ensures r == guard_view(g);
pub assume_specification[ Instant::now ]() -> Instant;
pub assume_specification[ Instant::elapsed ](i: &Instant) -> Duration;

// ---------- extracted type declarations (derives dropped, auto-trait markers dropped) ----------
pub enum StoreError { DispatchError(String), MiddlewareError(String) }
pub enum MiddlewareOp { ContinueAction, DoneAction, BreakChain }
pub enum Effect<Action> { Action(Action) }
pub enum DispatchOp<State, Action> {
    Dispatch(State, Option<Effect<Action>>),
    Keep(State, Option<Effect<Action>>),
}

pub enum Ev<S, A> {
    BeforeReduce(int, A, S),
    OnError(int),
    Reduce(int, S, A),
    MetricMw(int),
    MetricReduced,
}
pub type Trace<S, A> = Seq<Ev<S, A>>;

pub trait Dispatcher<Action: Send + Clone> {
    fn dispatch(&self, action: Action) -> Result<(), StoreError>;
}

pub trait Reducer<State, Action>
where State: Send + Sync + Clone, Action: Send + Sync + 'static
{
    spec fn id(&self) -> int;
    spec fn spec_reduce(&self, state: &State, action: &Action) -> DispatchOp<State, Action>;
    fn reduce(&self, state: &State, action: &Action, Tracked(t): Tracked<&mut Trace<State, Action>>) -> (r: DispatchOp<State, Action>)
        ensures r == self.spec_reduce(state, action),
            *final(t) == old(t).push(Ev::Reduce(self.id(), *state, *action));
}

pub trait Middleware<State, Action> {
    spec fn id(&self) -> int;
    spec fn spec_before_reduce(&self, action: &Action, state: &State) -> Result<MiddlewareOp, StoreError>;
    fn before_reduce(&self, action: &Action, state: &State, dispatcher: Arc<dyn Dispatcher<Action>>, Tracked(t): Tracked<&mut Trace<State, Action>>) -> (r: Result<MiddlewareOp, StoreError>)
        ensures r == self.spec_before_reduce(action, state),
            *final(t) == old(t).push(Ev::BeforeReduce(self.id(), *action, *state));
    fn on_error(&self, error: StoreError, Tracked(t): Tracked<&mut Trace<State, Action>>)
        ensures *final(t) == old(t).push(Ev::OnError(self.id()));
}


pub open spec fn br_trace<S, A>(ms: Seq<Arc<dyn Middleware<S, A>>>, a: A, s: S, i: int) -> Trace<S, A>
    decreases ms.len() - i
{
    if i < 0 || i >= ms.len() { Seq::empty() } else {
        let head = seq![Ev::BeforeReduce(ms[i].id(), a, s)];
        match ms[i].spec_before_reduce(&a, &s) {
            Err(_) => head.push(Ev::OnError(ms[i].id())) + br_trace(ms, a, s, i + 1),
            Ok(MiddlewareOp::BreakChain) => head,
            Ok(_) => head + br_trace(ms, a, s, i + 1),
        }
    }
}
pub open spec fn br_count<S, A>(ms: Seq<Arc<dyn Middleware<S, A>>>, a: A, s: S, i: int) -> int
    decreases ms.len() - i
{
    if i < 0 || i >= ms.len() { 0 } else {
        match ms[i].spec_before_reduce(&a, &s) {
            Ok(MiddlewareOp::BreakChain) => 1,
            _ => 1 + br_count(ms, a, s, i + 1),
        }
    }
}
// does some middleware reached before a BreakChain answer DoneAction?
pub open spec fn br_vetoed<S, A>(ms: Seq<Arc<dyn Middleware<S, A>>>, a: A, s: S, i: int) -> bool
    decreases ms.len() - i
{
    if i < 0 || i >= ms.len() { false } else {
        match ms[i].spec_before_reduce(&a, &s) {
            Ok(MiddlewareOp::BreakChain) => false,
            Ok(MiddlewareOp::DoneAction) => true,
            _ => br_vetoed(ms, a, s, i + 1),
        }
    }
}
pub open spec fn op_state<S, A>(op: DispatchOp<S, A>) -> S {
    match op { DispatchOp::Dispatch(s, _) => s, DispatchOp::Keep(s, _) => s }
}
pub open spec fn op_effect<S, A>(op: DispatchOp<S, A>) -> Option<Effect<A>> {
    match op { DispatchOp::Dispatch(_, e) => e, DispatchOp::Keep(_, e) => e }
}
pub open spec fn fold_state<S: Send + Sync + Clone, A: Send + Sync + 'static>(rs: Seq<Box<dyn Reducer<S, A>>>, s: S, a: A) -> S
    decreases rs.len()
{
    if rs.len() == 0 { s } else { op_state(rs.last().spec_reduce(&fold_state(rs.drop_last(), s, a), &a)) }
}
pub open spec fn fold_effects<S: Send + Sync + Clone, A: Send + Sync + 'static>(rs: Seq<Box<dyn Reducer<S, A>>>, s: S, a: A) -> Seq<Effect<A>>
    decreases rs.len()
{
    if rs.len() == 0 { Seq::empty() } else {
        let prev = fold_effects(rs.drop_last(), s, a);
        match op_effect(rs.last().spec_reduce(&fold_state(rs.drop_last(), s, a), &a)) {
            Some(e) => prev.push(e),
            None => prev,
        }
    }
}
pub open spec fn fold_trace<S: Send + Sync + Clone, A: Send + Sync + 'static>(rs: Seq<Box<dyn Reducer<S, A>>>, s: S, a: A) -> Trace<S, A>
    decreases rs.len()
{
    if rs.len() == 0 { Seq::empty() } else {
        fold_trace(rs.drop_last(), s, a).push(Ev::Reduce(rs.last().id(), fold_state(rs.drop_last(), s, a), a))
    }
}
pub open spec fn fold_notify<S: Send + Sync + Clone, A: Send + Sync + 'static>(rs: Seq<Box<dyn Reducer<S, A>>>, s: S, a: A) -> bool
{
    if rs.len() == 0 { true } else { rs.last().spec_reduce(&fold_state(rs.drop_last(), s, a), &a) is Dispatch }
}

pub struct CountMetrics { x: u8 }
impl CountMetrics {
    #[verifier::external_body]
    fn middleware_executed<S, A>(&self, data: Option<&A>, middleware_name: &str, count: usize, duration: Duration, Tracked(t): Tracked<&mut Trace<S, A>>)
        ensures *final(t) == old(t).push(Ev::MetricMw(count as int))
    { }
    #[verifier::external_body]
    fn action_reduced<S, A>(&self, data: Option<&A>, duration: Duration, d2: Duration, Tracked(t): Tracked<&mut Trace<S, A>>)
        ensures *final(t) == old(t).push(Ev::MetricReduced)
    { }
}

#[verifier::reject_recursive_types(State)]
#[verifier::reject_recursive_types(Action)]
pub struct StoreImpl<State, Action>
where State: Send + Sync + Clone + 'static, Action: Send + Sync + Clone + 'static,
{
    name: String,
    state: Mutex<State>,
    pub reducers: Mutex<Vec<Box<dyn Reducer<State, Action>>>>,
    middlewares: Mutex<Vec<Arc<dyn Middleware<State, Action>>>>,
    pub metrics: Arc<CountMetrics>,
}

impl<State, Action> StoreImpl<State, Action>
where State: Send + Sync + Clone + 'static, Action: Send + Sync + Clone + 'static,
{
    fn do_reduce(
        &self,
        action: &Action,
        mut state: State,
        dispatcher: Arc<dyn Dispatcher<Action>>,
        action_received_at: Instant,
        Tracked(t): Tracked<&mut Trace<State, Action>>,
    ) -> (r: (bool, State, Option<Vec<Effect<Action>>>))
        ensures ({
            let ms = mutex_view(&self.middlewares)@;
            let rs = mutex_view(&self.reducers)@;
            let vetoed = br_vetoed(ms, *action, state, 0);
            let t_mw = if ms.len() > 0 { br_trace(ms, *action, state, 0).push(Ev::MetricMw(br_count(ms, *action, state, 0))) } else { Seq::empty() };
            let t_rd = if vetoed { Seq::empty() } else { fold_trace(rs, state, *action).push(Ev::MetricReduced) };
            &&& *final(t) == *old(t) + t_mw + t_rd
            &&& r.1 == (if vetoed { state } else { fold_state(rs, state, *action) })
            &&& r.0 == (if vetoed { true } else { fold_notify(rs, state, *action) })
            &&& r.2 is Some
            &&& r.2->Some_0@ == (if vetoed { Seq::empty() } else { fold_effects(rs, state, *action) })
        })
    {
        let ghost s0 = state;
        let ghost t0 = *t;
        //let state = self.state.lock().unwrap().clone();

        let mut reduce_action = true;
        if !self.middlewares.lock().unwrap().is_empty() {
            let middleware_start = Instant::now();
            let mut middleware_executed = 0;
            let __g = self.middlewares.lock().unwrap();
            assert(mutex_view(&self.middlewares).len() <= usize::MAX);
            for middleware in it: __g.iter()
                invariant_except_break
                    it.seq().len() == mutex_view(&self.middlewares)@.len(),
                    forall|i: int| 0 <= i < it.seq().len() ==> *it.seq()[i] == mutex_view(&self.middlewares)@[i],
                    state == s0,
                    it.seq().len() <= usize::MAX,
                    middleware_executed == it.index@,
                    *t + br_trace(mutex_view(&self.middlewares)@, *action, s0, it.index@) == t0 + br_trace(mutex_view(&self.middlewares)@, *action, s0, 0),
                    middleware_executed + br_count(mutex_view(&self.middlewares)@, *action, s0, it.index@) == br_count(mutex_view(&self.middlewares)@, *action, s0, 0),
                    !reduce_action || br_vetoed(mutex_view(&self.middlewares)@, *action, s0, it.index@) == br_vetoed(mutex_view(&self.middlewares)@, *action, s0, 0),
                    reduce_action || br_vetoed(mutex_view(&self.middlewares)@, *action, s0, 0),
                ensures
                    state == s0,
                    *t == t0 + br_trace(mutex_view(&self.middlewares)@, *action, s0, 0),
                    middleware_executed == br_count(mutex_view(&self.middlewares)@, *action, s0, 0),
                    reduce_action == !br_vetoed(mutex_view(&self.middlewares)@, *action, s0, 0),
            {
                middleware_executed += 1;
                match middleware.before_reduce(action, &state, dispatcher.clone(), Tracked(t)) {
                    Ok(MiddlewareOp::ContinueAction) => {
                        // continue dispatching the action
                    }
                    Ok(MiddlewareOp::DoneAction) => {
                        // stop dispatching the action
                        // last middleware wins
                        reduce_action = false;
                    }
                    Ok(MiddlewareOp::BreakChain) => {
                        // break the middleware chain
                        break;
                    }
                    Err(e) => {
                        middleware.on_error(e, Tracked(t));
                    }
                }
            }
            let middleware_duration = middleware_start.elapsed();
            self.metrics.middleware_executed(
                Some(action),
                "before_reduce",
                middleware_executed,
                middleware_duration,
                Tracked(t),
            );
        }

        let mut effects = vec![];
        let mut need_dispatch = true;
        if reduce_action {
            let reducer_start = Instant::now();

            let __g = self.reducers.lock().unwrap();
            let ghost t1 = *t;
            for reducer in it: __g.iter()
                invariant
                    it.seq().len() == mutex_view(&self.reducers)@.len(),
                    forall|i: int| 0 <= i < it.seq().len() ==> *it.seq()[i] == mutex_view(&self.reducers)@[i],
                    state == fold_state(mutex_view(&self.reducers)@.take(it.index@), s0, *action),
                    effects@ == fold_effects(mutex_view(&self.reducers)@.take(it.index@), s0, *action),
                    *t == t1 + fold_trace(mutex_view(&self.reducers)@.take(it.index@), s0, *action),
                    need_dispatch == fold_notify(mutex_view(&self.reducers)@.take(it.index@), s0, *action),
            {
                proof {
                    let rs = mutex_view(&self.reducers)@;
                    assert(rs.take(it.index@ + 1).drop_last() == rs.take(it.index@));
                    assert(rs.take(it.index@ + 1).last() == rs[it.index@]);
                }
                match reducer.reduce(&state, action, Tracked(t)) {
                    DispatchOp::Dispatch(new_state, effect) => {
                        state = new_state;
                        if let Some(effect) = effect {
                            effects.push(effect);
                        }
                        need_dispatch = true;
                    }
                    DispatchOp::Keep(new_state, effect) => {
                        // keep the state but do not dispatch
                        state = new_state;
                        if let Some(effect) = effect {
                            effects.push(effect);
                        }
                        need_dispatch = false;
                    }
                }
            }

            proof {
                let rs = mutex_view(&self.reducers)@;
                assert(rs.take(rs.len() as int) == rs);
            }
            // reducer 실행 시간 측정 종료 및 기록
            let reducer_duration = reducer_start.elapsed();
            self.metrics.action_reduced(
                Some(action),
                reducer_duration,
                action_received_at.elapsed(),
                Tracked(t),
            );
        }

        (need_dispatch, state, Some(effects))
    }
}

} // verus!
fn main() {}
