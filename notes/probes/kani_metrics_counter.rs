// feasibility probe: appended to a scratch copy of src/metrics.rs; cargo kani --harness action_dropped_increments_only_dropped: SUCCESSFUL, 27 s incl. build
#[cfg(kani)]
mod kani_metrics {
    use super::*;

    #[kani::proof]
    fn action_dropped_increments_only_dropped() {
        let m = CountMetrics::default();
        let a: usize = kani::any();
        let b: usize = kani::any();
        kani::assume(a < usize::MAX);
        m.action_dropped.store(a, Ordering::SeqCst);
        m.action_received.store(b, Ordering::SeqCst);
        m.action_dropped(None);
        assert!(m.action_dropped.load(Ordering::SeqCst) == a + 1);
        assert!(m.action_received.load(Ordering::SeqCst) == b);
    }
}
