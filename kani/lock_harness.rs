// Kani harnesses for C02 / C04 on the real src/store_impl.rs + src/dispatcher.rs: every hand-over to
// the dispatch channel happens while the dispatch_tx mutex is held (real MIR, real drop order of
// the guards).  SenderChannel::send is replaced by a checker of its precondition "the mutex
// protecting this sender is locked now" (modular: caller checked against the callee's contract).
// Loop-free, symbolic action / open-closed choice: complete for State = Action = u8 (A8).
use super::*;
use crate::channel::SenderError;
use crate::dispatcher::Dispatcher;

static mut LOCK_PROBE: Option<*const Mutex<Option<SenderChannel<u8>>>> = None;
static mut SENDS: usize = 0;
static mut SENT_UNDER_LOCK: usize = 0;
static mut SENT_ACTIONS: usize = 0;
static mut SENT_EXITS: usize = 0;
static mut LAST_ACTION: u8 = 0;
static mut SLOT_EMPTY_AT_EXIT: usize = 0;
static mut SENT_WITH_SLOT_EMPTY: usize = 0;
static mut STUB_RESULT_OK: bool = true;

fn send_stub<T: Send + Sync + Clone + 'static>(
    _s: &SenderChannel<T>,
    item: ActionOp<T>,
) -> Result<i64, SenderError<ActionOp<T>>> {
    unsafe {
        SENDS += 1;
        if let Some(p) = LOCK_PROBE {
            match (*p).try_lock() {
                Err(_) => SENT_UNDER_LOCK += 1,
                Ok(slot) => {
                    // not under the lock, but the sender slot has already been emptied: nobody can hand anything over any more
                    if slot.is_none() {
                        SENT_WITH_SLOT_EMPTY += 1;
                    }
                }
            }
        }
        match &item {
            ActionOp::Action(a) => {
                SENT_ACTIONS += 1;
                // T is u8 in every harness below
                LAST_ACTION = *(a as *const T as *const u8);
            }
            ActionOp::Exit(_) => {
                SENT_EXITS += 1;
            }
        }
        if STUB_RESULT_OK {
            std::mem::forget(item);
            Ok(0)
        } else {
            Err(SenderError::SendError(item))
        }
    }
}

// Instant::now() reaches clock_gettime, which Kani does not model; no property mentions time (D4)
fn now_stub() -> Instant {
    unsafe { std::mem::zeroed() }
}

// `drop(tx)` in close() frees the crossbeam channel (dependency internals, very expensive for CBMC):
// the explicit drop is replaced by forget; nothing checked here depends on the deallocation
fn drop_stub<T>(x: T) {
    // only the sender (the crossbeam channel behind it) is leaked; everything else -- in particular a mutex guard
    // released with an explicit drop(guard) -- is really dropped, at the end of this scope
    if std::mem::size_of::<T>() == std::mem::size_of::<SenderChannel<u8>>() && std::mem::needs_drop::<T>() && std::mem::align_of::<T>() == std::mem::align_of::<SenderChannel<u8>>() && !is_guard::<T>() {
        std::mem::forget(x)
    } else {
        let _dropped_here = x;
    }
}
fn is_guard<T>() -> bool {
    std::mem::size_of::<T>() == std::mem::size_of::<std::sync::MutexGuard<'static, Option<SenderChannel<u8>>>>()
}

fn mk(open: bool) -> StoreImpl<u8, u8> {
    let metrics = Arc::new(CountMetrics::default());
    let (tx, rx) = BackpressureChannel::<u8>::pair_with("d", 1, BackpressurePolicy::BlockOnFull, None);
    std::mem::forget(rx);
    StoreImpl {
        name: String::new(),
        state: Mutex::new(0u8),
        reducers: Mutex::new(Vec::new()),
        subscribers: Arc::new(Mutex::new(Vec::new())),
        middlewares: Mutex::new(Vec::new()),
        dispatch_tx: Mutex::new(if open {
            Some(tx)
        } else {
            std::mem::forget(tx);
            None
        }),
        metrics,
        pool: Mutex::new(None),
    }
}

#[kani::proof]
#[kani::stub(SenderChannel::send, send_stub)]
#[kani::unwind(3)]
fn lock_dispatch() {
    let open: bool = kani::any();
    let ok: bool = kani::any();
    unsafe {
        STUB_RESULT_OK = ok;
    }
    let store = mk(open);
    unsafe {
        LOCK_PROBE = Some(&store.dispatch_tx as *const _);
    }
    let a: u8 = kani::any();
    let r = store.dispatch(a);
    unsafe {
        if open {
            assert!(!ok || r.is_ok(), "[O-C02-k-dispatch-ok C02 C04] open store: StoreImpl::dispatch returns Ok when the channel admitted the action");
            assert!(store.metrics.error_occurred.load(std::sync::atomic::Ordering::SeqCst) == 0, "[O-C18-k-dispatch-open-no-error C18] open store: nothing is counted as an error, whatever the channel answers");
            assert!(SENDS == 1 && SENT_ACTIONS == 1 && LAST_ACTION == a, "[O-C02-k-dispatch-once C02] open store: exactly one hand-over of exactly the caller's action");
            assert!(SENT_UNDER_LOCK == 1, "[O-C02-k-dispatch-under-lock C02 C04 C05 C06] the hand-over happens while dispatch_tx is locked");
        } else {
            assert!(r.is_err(), "[O-C04-k-dispatch-closed C04] closed store: StoreImpl::dispatch returns Err");
            assert!(SENDS == 0, "[O-C04-k-dispatch-closed-nosend C04] closed store: nothing is handed over");
            assert!(store.metrics.error_occurred.load(std::sync::atomic::Ordering::SeqCst) == 1, "[O-C18-k-dispatch-error-metric C18 C04] closed store: the rejection is counted once");
        }
    }
    assert!(store.dispatch_tx.try_lock().is_ok(), "[O-C02-k-dispatch-unlocks C02] the dispatch lock is free again on return");
    kani::cover!(true, "harness reaches its end");
    std::mem::forget(store);
    std::mem::forget(r);
}

#[kani::proof]
#[kani::stub(SenderChannel::send, send_stub)]
#[kani::unwind(3)]
fn lock_dispatcher_dispatch() {
    let open: bool = kani::any();
    let ok: bool = kani::any();
    unsafe {
        STUB_RESULT_OK = ok;
    }
    let store = Arc::new(mk(open));
    unsafe {
        LOCK_PROBE = Some(&store.dispatch_tx as *const _);
    }
    let a: u8 = kani::any();
    let r = <Arc<StoreImpl<u8, u8>> as Dispatcher<u8>>::dispatch(&store, a);
    unsafe {
        if open {
            assert!(SENDS == 1 && SENT_ACTIONS == 1 && LAST_ACTION == a, "[O-C02-k-ddispatch-once C02] open store: Dispatcher::dispatch hands over exactly the caller's action once");
            assert!(SENT_UNDER_LOCK == 1, "[O-C02-k-ddispatch-under-lock C02 C04 C05 C06] the hand-over happens while dispatch_tx is locked");
            assert!(r.is_ok() == ok, "[O-C06-k-ddispatch-err-iff-refused C06] Dispatcher::dispatch returns Err exactly when the channel refused the action");
            assert!(store.metrics.error_occurred.load(std::sync::atomic::Ordering::SeqCst) == 0, "[O-C18-k-ddispatch-open-no-error C18] open store: Dispatcher::dispatch counts nothing as an error, whatever the channel answers");
        } else {
            assert!(r.is_err(), "[O-C04-k-ddispatch-closed C04] closed store: Dispatcher::dispatch returns Err");
            assert!(SENDS == 0, "[O-C04-k-ddispatch-closed-nosend C04] closed store: nothing is handed over");
            assert!(store.metrics.error_occurred.load(std::sync::atomic::Ordering::SeqCst) == 0, "[O-C18-k-ddispatch-no-error-metric C18] Dispatcher::dispatch never touches the error counter");
        }
    }
    assert!(store.dispatch_tx.try_lock().is_ok(), "[O-C02-k-ddispatch-unlocks C02] the dispatch lock is free again on return");
    kani::cover!(true, "harness reaches its end");
    std::mem::forget(store);
    std::mem::forget(r);
}

fn send_stub_close<T: Send + Sync + Clone + 'static>(
    s: &SenderChannel<T>,
    item: ActionOp<T>,
) -> Result<i64, SenderError<ActionOp<T>>> {
    unsafe {
        if let ActionOp::Exit(_) = &item {
            if let Some(p) = LOCK_PROBE {
                // the lock is held by close(); the slot content was already taken if close() emptied it first.
                // (cannot lock here; close() records the order itself: see lock_close)
                let _ = p;
            }
        }
    }
    send_stub(s, item)
}

#[kani::proof]
#[kani::stub(SenderChannel::send, send_stub_close)]
#[kani::stub(std::time::Instant::now, now_stub)]
#[kani::stub(std::mem::drop, drop_stub)]
#[kani::unwind(3)]
fn lock_close() {
    let open: bool = kani::any();
    // the channel may refuse the marker (DropLatest on a full queue): close() must end up closed all the same
    let ok: bool = kani::any();
    unsafe {
        STUB_RESULT_OK = ok;
    }
    let store = mk(open);
    unsafe {
        LOCK_PROBE = Some(&store.dispatch_tx as *const _);
    }
    store.close();
    unsafe {
        if open {
            assert!(SENDS == 1 && SENT_EXITS == 1 && SENT_ACTIONS == 0, "[O-C04-k-close-exit-once C04] first close: exactly one Exit marker is handed over");
            assert!(SENT_UNDER_LOCK + SENT_WITH_SLOT_EMPTY == 1, "[O-C04-k-close-exit-under-lock C04 C02 C05] the Exit marker is handed over while dispatch_tx is locked, or after the sender slot has been emptied (no action can slip in behind it)");
        } else {
            assert!(SENDS == 0, "[O-C04-k-close-idempotent C04] closed store: close hands nothing over");
        }
    }
    assert!(store.dispatch_tx.try_lock().is_ok(), "[O-C04-k-close-unlocks C04] the dispatch lock is free again on return");
    assert!(store.dispatch_tx.lock().unwrap().is_none(), "[O-C04-k-close-empties-slot C04] the sender slot is empty after close");
    // a dispatch after close is rejected and hands nothing over
    let a: u8 = kani::any();
    let before = unsafe { SENDS };
    let r = store.dispatch(a);
    assert!(r.is_err(), "[O-C04-k-dispatch-after-close C04] dispatch after close returns Err");
    assert!(unsafe { SENDS } == before, "[O-C04-k-dispatch-after-close-nosend C04] dispatch after close hands nothing over");
    kani::cover!(true, "harness reaches its end");
    std::mem::forget(store);
    std::mem::forget(r);
}

#[kani::proof]
#[kani::stub(SenderChannel::send, send_stub)]
#[kani::stub(std::time::Instant::now, now_stub)]
#[kani::stub(std::mem::drop, drop_stub)]
#[kani::unwind(3)]
fn lock_stop_twice() {
    let open: bool = kani::any();
    let store = mk(open);
    unsafe {
        LOCK_PROBE = Some(&store.dispatch_tx as *const _);
    }
    store.stop();
    let after_first = unsafe { SENDS };
    assert!(after_first == if open { 1 } else { 0 }, "[O-C04-k-stop-exit-once C04 C15] stop hands over one Exit iff the store was open");
    store.stop();
    assert!(unsafe { SENDS } == after_first, "[O-C04-k-stop-idempotent C04] a second stop hands nothing over");
    assert!(store.dispatch_tx.lock().unwrap().is_none() && store.pool.lock().unwrap().is_none(), "[O-C04-k-stop-slots-empty C04 C15] sender slot and pool slot are empty after stop");
    kani::cover!(true, "harness reaches its end");
    std::mem::forget(store);
}
