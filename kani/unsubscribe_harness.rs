// Kani bounded stand-in for C09 on the real src/store_impl.rs: the unsubscribe closure returned by
// add_subscriber (Vec::retain with an effectful closure is outside the Verus subset).
// BOUNDED: exactly 2 registered subscribers (symbolic target), loops unwound 4 times with
// unwinding assertions on.  Never counted as proved.
use super::*;

static mut NOTIFIED: [usize; 2] = [0; 2];
static mut RELEASED: [usize; 2] = [0; 2];

struct Probe(usize);
impl Subscriber<u8, u8> for Probe {
    fn on_notify(&self, _s: &u8, _a: &u8) {
        unsafe {
            NOTIFIED[self.0] += 1;
        }
    }
    fn on_unsubscribe(&self) {
        unsafe {
            RELEASED[self.0] += 1;
        }
    }
}

fn mk() -> StoreImpl<u8, u8> {
    StoreImpl {
        name: String::new(),
        state: Mutex::new(0u8),
        reducers: Mutex::new(Vec::new()),
        subscribers: Arc::new(Mutex::new(Vec::with_capacity(2))),
        middlewares: Mutex::new(Vec::new()),
        dispatch_tx: Mutex::new(None),
        metrics: Arc::new(CountMetrics::default()),
        pool: Mutex::new(None),
    }
}

#[kani::proof]
#[kani::unwind(4)]
fn unsubscribe_removes_exactly_target() {
    let store = mk();
    let s0: Arc<dyn Subscriber<u8, u8> + Send + Sync> = Arc::new(Probe(0));
    let s1: Arc<dyn Subscriber<u8, u8> + Send + Sync> = Arc::new(Probe(1));
    let h0 = store.add_subscriber(s0.clone());
    let h1 = store.add_subscriber(s1.clone());
    {
        let list = store.subscribers.lock().unwrap();
        assert!(list.len() == 2 && Arc::ptr_eq(&list[0], &s0) && Arc::ptr_eq(&list[1], &s1), "[O-C09-k-add-appends C09 C07] add_subscriber appends in registration order");
    }
    let first: bool = kani::any();
    if first { h0.unsubscribe() } else { h1.unsubscribe() }
    let t = if first { 0 } else { 1 };
    unsafe {
        let list = store.subscribers.lock().unwrap();
        assert!(list.len() == 1, "[O-C09-k-unsub-removes-one C09] unsubscribe removes exactly one entry");
        assert!(Arc::ptr_eq(&list[0], if first { &s1 } else { &s0 }), "[O-C09-k-unsub-keeps-others C09] the other subscriber stays registered, the target is gone");
        assert!(RELEASED[t] == 1 && RELEASED[1 - t] == 0, "[O-C09-k-unsub-releases-once C09] the target gets on_unsubscribe exactly once, nobody else");
    }
    if first { h0.unsubscribe() } else { h1.unsubscribe() }
    unsafe {
        assert!(store.subscribers.lock().unwrap().len() == 1 && RELEASED[t] == 1 && RELEASED[1 - t] == 0, "[O-C09-k-unsub-idempotent C09] unsubscribing again does nothing");
    }
    store.clear_subscribers();
    unsafe {
        assert!(store.subscribers.lock().unwrap().len() == 0, "[O-C09-k-clear-empties C09 C04] clear_subscribers empties the list");
        assert!(RELEASED[0] == 1 && RELEASED[1] == 1, "[O-C09-k-each-released-once C09 C04] every registered subscriber is released exactly once, at unsubscribe or at shutdown, whichever comes first");
        assert!(NOTIFIED[0] + NOTIFIED[1] == 0, "[O-C09-k-no-notify C09] releasing never notifies");
    }
    kani::cover!(true, "harness reaches its end");
    std::mem::forget(h0);
    std::mem::forget(h1);
    std::mem::forget(store);
    std::mem::forget(s0);
    std::mem::forget(s1);
}
