// Kani bounded stand-in for C09 on the real src/store_impl.rs: the unsubscribe closure returned by
// add_subscriber (Vec::retain with an effectful closure is outside the Verus subset).
// BOUNDED: exactly 1 registered subscriber, loops unwound 4 times with
// unwinding assertions on.  Never counted as proved.
use super::*;

static mut NOTIFIED: [usize; 2] = [0; 2];
static mut RELEASED: [usize; 2] = [0; 2];
static mut RELEASED_UNDER_LOCK: [usize; 2] = [0; 2];
static mut NOTIFIED_UNDER_LOCK: [usize; 2] = [0; 2];
static mut SUBS: Option<*const Mutex<Vec<Arc<dyn Subscriber<u8, u8> + Send + Sync>>>> = None;

struct Probe(usize);
impl Subscriber<u8, u8> for Probe {
    fn on_notify(&self, _s: &u8, _a: &u8) {
        unsafe {
            NOTIFIED[self.0] += 1;
            if let Some(p) = SUBS {
                if (*p).try_lock().is_err() {
                    NOTIFIED_UNDER_LOCK[self.0] += 1;
                }
            }
        }
    }
    fn on_unsubscribe(&self) {
        unsafe {
            RELEASED[self.0] += 1;
            // release and removal are one critical section of the subscribers mutex: that is what makes
            // "exactly once, at unsubscribe() or at shutdown, whichever comes first" hold when the two race
            if let Some(p) = SUBS {
                match (*p).try_lock() {
                    Err(_) => RELEASED_UNDER_LOCK[self.0] += 1,
                    Ok(list) => {
                        // not under the lock, but this subscriber has already been taken off the list (atomically, under
                        // the lock): nobody else can find it there and release it a second time
                        let me = self as *const Probe as *const ();
                        let mut listed = false;
                        let mut i = 0;
                        while i < list.len() {
                            if Arc::as_ptr(&list[i]) as *const () == me {
                                listed = true;
                            }
                            i += 1;
                        }
                        if !listed {
                            RELEASED_UNDER_LOCK[self.0] += 1;
                        }
                    }
                }
            }
        }
    }
}

fn mk() -> StoreImpl<u8, u8> {
    StoreImpl {
        name: String::new(),
        state: Mutex::new(0u8),
        reducers: Mutex::new(Vec::new()),
        subscribers: Arc::new(Mutex::new(Vec::with_capacity(2))),
        middlewares: Mutex::new(Vec::new()),
        dispatch_tx: Mutex::new(None),
        metrics: Arc::new(CountMetrics::default()),
        pool: Mutex::new(None),
    }
}

#[kani::proof]
#[kani::unwind(4)]
fn unsubscribe_removes_exactly_target() {
    let store = mk();
    unsafe {
        SUBS = Some(&*store.subscribers as *const _);
    }
    let s0: Arc<dyn Subscriber<u8, u8> + Send + Sync> = Arc::new(Probe(0));
    let h0 = store.add_subscriber(s0.clone());
    {
        let list = store.subscribers.lock().unwrap();
        assert!(list.len() == 1 && Arc::ptr_eq(&list[0], &s0), "[O-C09-k-add-appends C09 C07] add_subscriber appends in registration order");
    }
    h0.unsubscribe();
    let t = 0;
    unsafe {
        let list = store.subscribers.lock().unwrap();
        assert!(list.len() == 0, "[O-C09-k-unsub-removes-one C09] unsubscribe removes the entry");
        assert!(RELEASED[t] == 1 && RELEASED[1 - t] == 0, "[O-C09-k-unsub-releases-once C09] the target gets on_unsubscribe exactly once, nobody else");
        assert!(RELEASED_UNDER_LOCK[t] == 1, "[O-C09-k-release-under-lock C09 C04] unsubscribe() releases the subscriber while the subscribers lock is held, or after it has been taken off the list (atomic with its removal)");
    }
    h0.unsubscribe();
    unsafe {
        assert!(store.subscribers.lock().unwrap().len() == 0 && RELEASED[t] == 1 && RELEASED[1 - t] == 0, "[O-C09-k-unsub-idempotent C09] unsubscribing again does nothing");
    }
    store.clear_subscribers();
    unsafe {
        assert!(store.subscribers.lock().unwrap().len() == 0, "[O-C09-k-clear-empties C09 C04] clear_subscribers empties the list");
        assert!(RELEASED[0] == 1 && RELEASED[1] == 0, "[O-C09-k-each-released-once C09 C04] every registered subscriber is released exactly once, at unsubscribe or at shutdown, whichever comes first");
        assert!(NOTIFIED[0] + NOTIFIED[1] == 0, "[O-C09-k-no-notify C09] releasing never notifies");
    }
    kani::cover!(true, "harness reaches its end");
    std::mem::forget(h0);
    std::mem::forget(store);
    std::mem::forget(s0);
}

// shutdown release (clear_subscribers) of one registered subscriber: released once, list emptied, and the release
// happens inside the critical section of the subscribers mutex, so that a racing unsubscribe() cannot release it again
#[kani::proof]
#[kani::unwind(4)]
fn clear_releases_under_lock() {
    let store = mk();
    unsafe {
        SUBS = Some(&*store.subscribers as *const _);
    }
    let s0: Arc<dyn Subscriber<u8, u8> + Send + Sync> = Arc::new(Probe(0));
    store.subscribers.lock().unwrap().push(s0.clone());
    store.clear_subscribers();
    unsafe {
        assert!(store.subscribers.lock().unwrap().len() == 0, "[O-C09-k-clear-empties C09 C04] clear_subscribers empties the list");
        assert!(RELEASED[0] == 1 && RELEASED[1] == 0, "[O-C09-k-clear-releases-once C09 C04] clear_subscribers releases the registered subscriber exactly once");
        assert!(RELEASED_UNDER_LOCK[0] == 1, "[O-C09-k-clear-release-under-lock C09 C04] the shutdown release happens while the subscribers lock is held, or after the subscriber has been taken off the list (atomic with the removal from the list)");
        assert!(NOTIFIED[0] + NOTIFIED[1] == 0, "[O-C09-k-no-notify C09] releasing never notifies");
    }
    kani::cover!(true, "harness reaches its end");
    std::mem::forget(store);
    std::mem::forget(s0);
}

// Instant::now() reaches clock_gettime, which Kani does not model; no property mentions time (D4)
fn now_stub_n() -> Instant {
    unsafe { std::mem::zeroed() }
}
struct NoDispatcher;
impl crate::dispatcher::Dispatcher<u8> for NoDispatcher {
    fn dispatch(&self, _a: u8) -> Result<(), crate::store::StoreError> {
        Ok(())
    }
    fn dispatch_thunk(&self, _t: Box<dyn FnOnce(Box<dyn crate::dispatcher::Dispatcher<u8>>) + Send>) {}
    fn dispatch_task(&self, _t: Box<dyn FnOnce() + Send>) {}
}

// C09 "once unsubscribe() has returned the subscriber receives nothing further", for every interleaving: unsubscribe()
// removes the subscriber inside a critical section of the subscribers mutex, so a notification can only be excluded
// from running after unsubscribe() has returned if on_notify is called inside a critical section of the same mutex
// (the membership check and the call are then atomic with respect to the removal).
#[kani::proof]
#[kani::unwind(5)]
#[kani::stub(std::time::Instant::now, now_stub_n)]
fn notify_under_lock() {
    let store = mk();
    unsafe {
        SUBS = Some(&*store.subscribers as *const _);
    }
    let s0: Arc<dyn Subscriber<u8, u8> + Send + Sync> = Arc::new(Probe(0));
    let s1: Arc<dyn Subscriber<u8, u8> + Send + Sync> = Arc::new(Probe(1));
    {
        let mut l = store.subscribers.lock().unwrap();
        l.push(s0.clone());
        l.push(s1.clone());
    }
    let d: Arc<dyn crate::dispatcher::Dispatcher<u8>> = Arc::new(NoDispatcher);
    let a: u8 = kani::any();
    let st: u8 = kani::any();
    store.do_notify(&a, &st, d, now_stub_n());
    unsafe {
        assert!(NOTIFIED[0] == 1 && NOTIFIED[1] == 1, "[O-C09-k-notify-once C09 C03] every registered subscriber is notified exactly once per notifying action");
        assert!(NOTIFIED_UNDER_LOCK[0] == 1 && NOTIFIED_UNDER_LOCK[1] == 1, "[O-C09-k-notify-under-lock C09] on_notify runs inside a critical section of the subscribers mutex (a notification cannot be in flight when unsubscribe() returns)");
        assert!(RELEASED[0] == 0 && RELEASED[1] == 0, "[O-C09-k-notify-no-release C09] notifying never releases");
    }
    kani::cover!(true, "harness reaches its end");
    std::mem::forget(store);
    std::mem::forget(s0);
    std::mem::forget(s1);
}

// the shutdown release with two registered subscribers (unwind 5)
#[kani::proof]
#[kani::unwind(5)]
fn clear_releases_under_lock_2() {
    let store = mk();
    unsafe {
        SUBS = Some(&*store.subscribers as *const _);
    }
    let s0: Arc<dyn Subscriber<u8, u8> + Send + Sync> = Arc::new(Probe(0));
    let s1: Arc<dyn Subscriber<u8, u8> + Send + Sync> = Arc::new(Probe(1));
    {
        let mut l = store.subscribers.lock().unwrap();
        l.push(s0.clone());
        l.push(s1.clone());
    }
    store.clear_subscribers();
    unsafe {
        assert!(store.subscribers.lock().unwrap().len() == 0, "[O-C09-k-clear-empties C09 C04] clear_subscribers empties the list");
        assert!(RELEASED[0] == 1 && RELEASED[1] == 1, "[O-C09-k-clear-releases-once C09 C04] clear_subscribers releases every registered subscriber exactly once");
        assert!(RELEASED_UNDER_LOCK[0] == 1 && RELEASED_UNDER_LOCK[1] == 1, "[O-C09-k-clear-release-under-lock C09 C04] the shutdown release happens while the subscribers lock is held, or after the subscriber has been taken off the list (atomic with the removal from the list)");
        assert!(NOTIFIED[0] + NOTIFIED[1] == 0, "[O-C09-k-no-notify C09] releasing never notifies");
    }
    kani::cover!(true, "harness reaches its end");
    std::mem::forget(store);
    std::mem::forget(s0);
    std::mem::forget(s1);
}

// unsubscribe() with two registered subscribers, symbolic target (unwind 5)
#[kani::proof]
#[kani::unwind(5)]
fn unsubscribe_removes_exactly_target_2() {
    let store = mk();
    unsafe {
        SUBS = Some(&*store.subscribers as *const _);
    }
    let s0: Arc<dyn Subscriber<u8, u8> + Send + Sync> = Arc::new(Probe(0));
    let s1: Arc<dyn Subscriber<u8, u8> + Send + Sync> = Arc::new(Probe(1));
    let h0 = store.add_subscriber(s0.clone());
    let h1 = store.add_subscriber(s1.clone());
    let first: bool = kani::any();
    if first {
        h0.unsubscribe();
    } else {
        h1.unsubscribe();
    }
    let t = if first { 0 } else { 1 };
    unsafe {
        let list = store.subscribers.lock().unwrap();
        assert!(list.len() == 1, "[O-C09-k-unsub-removes-one C09] unsubscribe removes exactly one entry");
        assert!(Arc::ptr_eq(&list[0], if first { &s1 } else { &s0 }), "[O-C09-k-unsub-keeps-others C09 C03 C07] the other subscriber stays registered");
        assert!(RELEASED[t] == 1 && RELEASED[1 - t] == 0, "[O-C09-k-unsub-releases-once C09] the target gets on_unsubscribe exactly once, nobody else");
        assert!(RELEASED_UNDER_LOCK[t] == 1, "[O-C09-k-release-under-lock C09 C04] unsubscribe() releases the subscriber while the subscribers lock is held, or after it has been taken off the list (atomic with its removal)");
    }
    kani::cover!(true, "harness reaches its end");
    std::mem::forget(h0);
    std::mem::forget(h1);
    std::mem::forget(store);
    std::mem::forget(s0);
    std::mem::forget(s1);
}
