// Kani harnesses for C18 on the real src/metrics.rs (attached to a scratch copy with #[path]).
// Loop-free, all counter values and arguments symbolic: complete proofs, not bounded stand-ins.
use super::*;
use std::sync::atomic::Ordering::SeqCst;

const N: usize = 9;
const RECEIVED: usize = 0;
const DROPPED: usize = 1;
const REDUCED: usize = 2;
const EFFECT_ISSUED: usize = 3;
const EFFECT_EXECUTED: usize = 4;
const MIDDLEWARE: usize = 5;
const STATE_NOTIFIED: usize = 6;
const SUBSCRIBER_NOTIFIED: usize = 7;
const ERROR: usize = 8;

fn counters(m: &CountMetrics) -> [&AtomicUsize; N] {
    [
        &m.action_received,
        &m.action_dropped,
        &m.action_reduced,
        &m.effect_issued,
        &m.effect_executed,
        &m.middleware_executed,
        &m.state_notified,
        &m.subscriber_notified,
        &m.error_occurred,
    ]
}

fn any_below_overflow() -> usize {
    let v: usize = kani::any();
    kani::assume(v <= usize::MAX / 2);
    v
}

fn init(m: &CountMetrics) -> [usize; N] {
    let a = [
        any_below_overflow(), any_below_overflow(), any_below_overflow(),
        any_below_overflow(), any_below_overflow(), any_below_overflow(),
        any_below_overflow(), any_below_overflow(), any_below_overflow(),
    ];
    let c = counters(m);
    c[0].store(a[0], SeqCst); c[1].store(a[1], SeqCst); c[2].store(a[2], SeqCst);
    c[3].store(a[3], SeqCst); c[4].store(a[4], SeqCst); c[5].store(a[5], SeqCst);
    c[6].store(a[6], SeqCst); c[7].store(a[7], SeqCst); c[8].store(a[8], SeqCst);
    // time statistics start from arbitrary values too
    m.middleware_time_max.store(kani::any(), SeqCst);
    m.middleware_time_min.store(kani::any(), SeqCst);
    m.reducer_time_max.store(kani::any(), SeqCst);
    m.reducer_time_min.store(kani::any(), SeqCst);
    m.subscriber_time_max.store(kani::any(), SeqCst);
    m.subscriber_time_min.store(kani::any(), SeqCst);
    a
}

macro_rules! expect_only {
    ($m:expr, $before:expr, $k:expr, $delta:expr) => {{
        let c = counters($m);
        assert!(c[0].load(SeqCst) == $before[0] + (if $k == 0 { $delta } else { 0 }), "[O-C18-counter-action_received C18 C06] action_received changes only by action_received(): +1");
        assert!(c[1].load(SeqCst) == $before[1] + (if $k == 1 { $delta } else { 0 }), "[O-C18-counter-action_dropped C18 C06] action_dropped changes only by action_dropped(): +1");
        assert!(c[2].load(SeqCst) == $before[2] + (if $k == 2 { $delta } else { 0 }), "[O-C18-counter-action_reduced C18 C06] action_reduced changes only by action_reduced(): +1");
        assert!(c[3].load(SeqCst) == $before[3] + (if $k == 3 { $delta } else { 0 }), "[O-C18-counter-effect_issued C18 C06] effect_issued changes only by effect_issued(n): +n");
        assert!(c[4].load(SeqCst) >= $before[4], "[O-C18-counter-effect_executed C18] effect_executed never decreases (it is in no balance equation of the statement: how much it grows is not constrained)");
        assert!(c[5].load(SeqCst) == $before[5] + (if $k == 5 { $delta } else { 0 }), "[O-C18-counter-middleware_executed C18 C06] middleware_executed changes only by middleware_executed(n): +n");
        assert!(c[6].load(SeqCst) >= $before[6], "[O-C18-counter-state_notified C18] state_notified never decreases (it is in no balance equation of the statement: how much it grows is not constrained)");
        assert!(c[7].load(SeqCst) >= $before[7], "[O-C18-counter-subscriber_notified C18] subscriber_notified never decreases (it is in no balance equation of the statement: how much it grows is not constrained)");
        assert!(c[8].load(SeqCst) == $before[8] + (if $k == 8 { $delta } else { 0 }), "[O-C18-counter-error_occurred C18 C06] error_occurred changes only by error_occurred(): +1");
        kani::cover!(true, "harness reaches its end");
    }};
}

fn any_duration() -> Duration {
    let ms: u32 = kani::any();
    Duration::from_millis(ms as u64)
}
fn any_count() -> usize {
    let n: usize = kani::any();
    kani::assume(n <= usize::MAX / 2);
    n
}

#[kani::proof]
fn metrics_action_received() {
    let m = CountMetrics::default();
    let a = init(&m);
    m.action_received(None);
    expect_only!(&m, a, RECEIVED, 1);
}
#[kani::proof]
fn metrics_action_dropped() {
    let m = CountMetrics::default();
    let a = init(&m);
    m.action_dropped(None);
    expect_only!(&m, a, DROPPED, 1);
}
#[kani::proof]
fn metrics_action_executed() {
    let m = CountMetrics::default();
    let a = init(&m);
    m.action_executed(None, any_duration());
    expect_only!(&m, a, N, 0);
}
#[kani::proof]
fn metrics_action_reduced() {
    let m = CountMetrics::default();
    let a = init(&m);
    m.action_reduced(None, any_duration(), any_duration());
    expect_only!(&m, a, REDUCED, 1);
}
#[kani::proof]
fn metrics_effect_issued() {
    let m = CountMetrics::default();
    let a = init(&m);
    let n = any_count();
    m.effect_issued(n);
    expect_only!(&m, a, EFFECT_ISSUED, n);
}
#[kani::proof]
fn metrics_effect_executed() {
    let m = CountMetrics::default();
    let a = init(&m);
    let n = any_count();
    m.effect_executed(n, any_duration());
    expect_only!(&m, a, EFFECT_EXECUTED, n);
}
#[kani::proof]
fn metrics_middleware_executed() {
    let m = CountMetrics::default();
    let a = init(&m);
    // the call sites pass the number of hooks that ran in a phase that has at least one middleware: n >= 1
    // (for n == 0 the other harness below only asks that nothing decreases)
    let n = any_count();
    kani::assume(n >= 1);
    m.middleware_executed(None, "before_reduce", n, any_duration());
    expect_only!(&m, a, MIDDLEWARE, n);
}
#[kani::proof]
fn metrics_middleware_executed_zero() {
    let m = CountMetrics::default();
    let a = init(&m);
    m.middleware_executed(None, "before_reduce", 0, any_duration());
    let c = counters(&m);
    assert!(c[MIDDLEWARE].load(SeqCst) >= a[MIDDLEWARE], "[O-C18-counter-middleware_executed-zero C18] middleware_executed(0) does not decrease the counter");
    assert!(c[RECEIVED].load(SeqCst) == a[RECEIVED] && c[DROPPED].load(SeqCst) == a[DROPPED] && c[REDUCED].load(SeqCst) == a[REDUCED] && c[EFFECT_ISSUED].load(SeqCst) == a[EFFECT_ISSUED] && c[ERROR].load(SeqCst) == a[ERROR], "[O-C18-counter-middleware_executed-zero-others C18] middleware_executed(0) leaves the other balance counters alone");
    kani::cover!(true, "harness reaches its end");
}
#[kani::proof]
fn metrics_state_notified() {
    let m = CountMetrics::default();
    let a = init(&m);
    m.state_notified(None);
    expect_only!(&m, a, STATE_NOTIFIED, 1);
}
#[kani::proof]
fn metrics_subscriber_notified() {
    let m = CountMetrics::default();
    let a = init(&m);
    let n = any_count();
    m.subscriber_notified(None, n, any_duration());
    expect_only!(&m, a, SUBSCRIBER_NOTIFIED, n);
}
#[kani::proof]
fn metrics_queue_size() {
    let m = CountMetrics::default();
    let a = init(&m);
    m.queue_size(kani::any());
    expect_only!(&m, a, N, 0);
}
#[kani::proof]
fn metrics_error_occurred() {
    let m = CountMetrics::default();
    let a = init(&m);
    let e = StoreError::DispatchError(String::new());
    m.error_occurred(&e);
    expect_only!(&m, a, ERROR, 1);
    std::mem::forget(e);
}
// the public snapshot reads every event counter from the counter of the same name
#[kani::proof]
fn metrics_snapshot_copies() {
    let m = CountMetrics::default();
    let a = init(&m);
    let s: MetricsSnapshot = (&m).into();
    assert!(s.action_received == a[RECEIVED], "[O-C18-snapshot-action_received C18] snapshot.action_received is the counter");
    assert!(s.action_dropped == a[DROPPED], "[O-C18-snapshot-action_dropped C18] snapshot.action_dropped is the counter");
    assert!(s.action_reduced == a[REDUCED], "[O-C18-snapshot-action_reduced C18] snapshot.action_reduced is the counter");
    assert!(s.effect_issued == a[EFFECT_ISSUED], "[O-C18-snapshot-effect_issued C18] snapshot.effect_issued is the counter");
    assert!(s.effect_executed == a[EFFECT_EXECUTED], "[O-C18-snapshot-effect_executed C18] snapshot.effect_executed is the counter");
    assert!(s.middleware_executed == a[MIDDLEWARE], "[O-C18-snapshot-middleware_executed C18] snapshot.middleware_executed is the counter");
    assert!(s.state_notified == a[STATE_NOTIFIED], "[O-C18-snapshot-state_notified C18] snapshot.state_notified is the counter");
    assert!(s.subscriber_notified == a[SUBSCRIBER_NOTIFIED], "[O-C18-snapshot-subscriber_notified C18] snapshot.subscriber_notified is the counter");
    assert!(s.error_occurred == a[ERROR], "[O-C18-snapshot-error_occurred C18] snapshot.error_occurred is the counter");
    expect_only!(&m, a, N, 0);
}
