// Kani cross-check for C16 on the real src/subscriber.rs: the compare-then-deliver-then-store step of
// SelectorSubscriber::on_notify on the real Mutex<Option<Output>> (guards the R6 modelling of the
// named-guard block in the Verus unit).  Loop-free, Output = State = Action = u8: complete (A8).
use super::*;

static mut CALLS: usize = 0;
static mut LAST_VALUE: u8 = 0;
static mut LAST_ACTION: u8 = 0;

struct Ident;
impl Selector<u8, u8> for Ident {
    fn select(&self, state: &u8) -> u8 {
        *state
    }
}

#[kani::proof]
#[kani::unwind(3)]
fn selector_step() {
    let sub = SelectorSubscriber::<u8, u8, Ident, u8>::new(Ident, |v: u8, a: u8| unsafe {
        CALLS += 1;
        LAST_VALUE = v;
        LAST_ACTION = a;
    });
    assert!(sub.last_value.lock().unwrap().is_none(), "[O-C16-k-new-none C16] a new selector subscription has delivered nothing");
    let has_last: bool = kani::any();
    let last: u8 = kani::any();
    if has_last {
        *sub.last_value.lock().unwrap() = Some(last);
    }
    let state: u8 = kani::any();
    let action: u8 = kani::any();
    sub.on_notify(&state, &action);
    let now = *sub.last_value.lock().unwrap();
    unsafe {
        if has_last && last == state {
            assert!(CALLS == 0, "[O-C16-k-unchanged-silent C16] unchanged selection: the callback is not called");
            assert!(now == Some(last), "[O-C16-k-unchanged-keeps C16] unchanged selection: the remembered value stays");
        } else {
            assert!(CALLS == 1, "[O-C16-k-changed-once C16] first notification or changed selection: the callback is called exactly once");
            assert!(LAST_VALUE == state && LAST_ACTION == action, "[O-C16-k-changed-args C16] the callback receives the new value and the action that caused it");
            assert!(now == Some(state), "[O-C16-k-changed-stores C16] the new value is remembered");
        }
    }
    kani::cover!(true, "harness reaches its end");
    std::mem::forget(sub);
}
