"""engine K: Kani on a scratch copy of the real crate with harness modules attached by #[path].

Groups (see GROUPS): each names the source file that gets the `mod` line (so the harness sees private
items), the harness file under /verif/kani, the harnesses, and whether they are complete
(loop-free, full-domain symbolic inputs) or bounded stand-ins.
Every assertion message starts with `[<obligation id> <props...>]`.
"""
import os
import re
import shutil
import subprocess
import time

HERE = os.path.dirname(os.path.abspath(__file__))
KANI_DIR = os.path.join(HERE, '..', 'kani')

GROUPS = {
    'metrics': dict(attach='src/metrics.rs', file='metrics_harness.rs', module='metrics::verif_kani_metrics', bounded=False,
                    harnesses=['metrics_action_received', 'metrics_action_dropped', 'metrics_action_executed', 'metrics_action_reduced',
                               'metrics_effect_issued', 'metrics_effect_executed', 'metrics_middleware_executed', 'metrics_middleware_executed_zero', 'metrics_state_notified',
                               'metrics_subscriber_notified', 'metrics_queue_size', 'metrics_error_occurred', 'metrics_snapshot_copies'],
                    timeout=(300, 900)),
    'lock': dict(attach='src/store_impl.rs', file='lock_harness.rs', module='store_impl::verif_kani_lock', bounded=False,
                 harnesses=['lock_dispatch', 'lock_dispatcher_dispatch', 'lock_close', 'lock_stop_twice'], timeout=(420, 1200)),
    'selector': dict(attach='src/subscriber.rs', file='selector_harness.rs', module='subscriber::verif_kani_selector', bounded=False,
                     harnesses=['selector_step'], timeout=(300, 900)),
    'unsubscribe': dict(attach='src/store_impl.rs', file='unsubscribe_harness.rs', module='store_impl::verif_kani_unsubscribe', bounded=True,
                        bound='1 and 2 registered subscribers (symbolic target), unwind 4/5', harnesses=['unsubscribe_removes_exactly_target', 'unsubscribe_removes_exactly_target_2', 'clear_releases_under_lock', 'clear_releases_under_lock_2', 'notify_under_lock'], timeout=(600, 1800)),
}

TRUSTED = [
    'kani: SenderChannel::send replaced by a checker of its precondition (lock held) in the lock harnesses',
    'kani: std::time::Instant::now and std::mem::drop stubbed in the close/stop harnesses (clock_gettime unsupported; freeing the crossbeam channel is dependency-internal)',
    'kani: State = Action = Output = u8 (parametricity, A8)',
    'kani: atomics treated as sequential operations; counters assumed <= usize::MAX/2',
]


class Harness:
    def __init__(self, group, name, cfg):
        self.group = group
        self.name = name
        self.module = cfg['module']
        self.target = cfg['attach']
        self.bounded = cfg['bounded']
        self.bound = cfg.get('bound')
        self.status = 'undecided'
        self.reason = 'not run'
        self.obligations = []
        self.failed_obligations = []
        self.time_s = None
        self.cmd = ''
        self.checks = None

    def summary(self):
        return dict(harness=self.module + '::' + self.name, status=self.status, reason=self.reason if self.status == 'undecided' else '',
                    bounded=self.bounded, bound=self.bound, obligations=len(self.obligations), failed=[o['id'] for o in self.failed_obligations],
                    cbmc_time_s=self.time_s, cmd=self.cmd, checks=self.checks)


def parse_obligations(path):
    """obligations declared by a harness file: fn name -> list of dict(id, props, text)"""
    text = open(path, encoding='utf-8').read()
    out = {}
    # split by #[kani::proof] functions
    for m in re.finditer(r'#\[kani::proof\](?:\s*#\[[^\]]*\])*\s*fn\s+(\w+)\s*\(\)\s*\{', text):
        name = m.group(1)
        start = m.end()
        nxt = text.find('#[kani::proof]', start)
        body = text[start:nxt if nxt > 0 else len(text)]
        obs = []
        for a in re.finditer(r'"\[(O-[\w-]+)((?:\s+C\d+)*)\]\s*([^"]*)"', body):
            obs.append(dict(id=a.group(1), props=a.group(2).split(), text=a.group(3)))
        out[name] = obs
    # assertions inside macros used by several harnesses
    macro_obs = []
    for mm in re.finditer(r'macro_rules!\s*(\w+)\s*\{(.*?)\n\}', text, re.S):
        for a in re.finditer(r'"\[(O-[\w-]+)((?:\s+C\d+)*)\]\s*([^"]*)"', mm.group(2)):
            macro_obs.append((mm.group(1), dict(id=a.group(1), props=a.group(2).split(), text=a.group(3))))
    for name in out:
        m = re.search(r'fn\s+' + name + r'\s*\(\)\s*\{', text)
        nxt = text.find('#[kani::proof]', m.end())
        body = text[m.end():nxt if nxt > 0 else len(text)]
        for mac, ob in macro_obs:
            if re.search(r'\b' + mac + r'!\s*\(', body):
                out[name].append(ob)
    return out


def run_harnesses(repo, groups, tier, work, seed):
    res = []
    scratch = os.path.join(work, 'kani_src')
    os.makedirs(scratch)
    # scratch copy of the working tree (never /repo itself)
    subprocess.run(['rsync', '-a', '--exclude', 'target', '--exclude', '.git', repo.rstrip('/') + '/', scratch + '/'], check=True)
    wanted = []
    for g in groups:
        cfg = GROUPS[g]
        hfile = os.path.abspath(os.path.join(KANI_DIR, cfg['file']))
        src = os.path.join(scratch, cfg['attach'])
        if not os.path.exists(src):
            h = Harness(g, '*', cfg)
            h.reason = 'lost anchor: %s is missing' % cfg['attach']
            res.append(h)
            continue
        modname = cfg['module'].split('::')[-1]
        with open(src, 'a') as fh:
            fh.write('\n#[cfg(kani)] #[path = "%s"] mod %s;\n' % (hfile, modname))
        obs = parse_obligations(hfile)
        for name in cfg['harnesses']:
            h = Harness(g, name, cfg)
            h.obligations = obs.get(name, [])
            wanted.append((h, cfg))
    if not wanted:
        return res
    tmo = max(cfg['timeout'][0 if tier == 'quick' else 1] for (_, cfg) in wanted)
    cmd = ['cargo', 'kani', '-Z', 'stubbing', '--exact', '--output-format', 'terse', '-j', '8']
    for h, cfg in wanted:
        cmd += ['--harness', cfg['module'] + '::' + h.name]
    env = dict(os.environ, CARGO_NET_OFFLINE='true', CARGO_TARGET_DIR=os.path.join(scratch, 'target'))
    t0 = time.time()
    timed_out = False
    # own process group, so that a timeout also ends the cbmc grandchildren
    import signal
    outf = open(os.path.join(work, 'kani_out.txt'), 'w+')
    proc = subprocess.Popen(cmd, cwd=scratch, env=env, stdout=outf, stderr=subprocess.STDOUT, text=True, start_new_session=True)
    try:
        proc.wait(timeout=tmo)
    except subprocess.TimeoutExpired:
        timed_out = True
        try:
            os.killpg(proc.pid, signal.SIGKILL)
        except Exception:
            pass
        proc.wait()
    outf.seek(0)
    out = outf.read()
    outf.close()
    wall = time.time() - t0
    cmdline = 'CARGO_NET_OFFLINE=true ' + ' '.join(cmd)
    # split the output into per-thread blocks
    thread_h = {}
    blocks = {}
    cur = None
    for ln in out.split('\n'):
        m = re.match(r'Thread (\d+): Checking harness (\S+?)\.\.\.', ln)
        if m:
            thread_h[m.group(1)] = m.group(2)
            continue
        m = re.match(r'Checking harness (\S+?)\.\.\.', ln)
        if m:
            thread_h['_'] = m.group(1)
            cur = m.group(1)
            blocks.setdefault(cur, [])
            continue
        m = re.match(r'Thread (\d+):\s*$', ln)
        if m and m.group(1) in thread_h:
            cur = thread_h[m.group(1)]
            blocks.setdefault(cur, [])
            continue
        if cur is not None:
            blocks[cur].append(ln)
    compile_error = None
    if re.search(r'^error(\[E\d+\])?:', out, re.M) and not blocks:
        m = re.search(r'^error(\[E\d+\])?:.*$', out, re.M)
        compile_error = m.group(0)[:300]
    for h, cfg in wanted:
        h.cmd = cmdline
        full = cfg['module'] + '::' + h.name
        blk = '\n'.join(blocks.get(full, []))
        if compile_error:
            h.status, h.reason = 'undecided', 'kani could not build the scratch crate: ' + compile_error
        elif not blk:
            h.status, h.reason = 'undecided', ('timeout after %ds' % tmo) if timed_out else 'no result block in kani output'
        else:
            m = re.search(r'Verification Time: ([\d.]+)s', blk)
            if m:
                h.time_s = float(m.group(1))
            m = re.search(r'\*\* (\d+) of (\d+) failed', blk)
            if m:
                h.checks = int(m.group(2))
            fails = re.findall(r'Failed Checks: (.*)\n', blk)
            cover_unsat = re.search(r'\*\* 0 of \d+ cover properties satisfied', blk)
            if 'VERIFICATION:- SUCCESSFUL' in blk:
                if cover_unsat:
                    h.status, h.reason = 'undecided', 'vacuity guard: the end of the harness is unreachable'
                else:
                    h.status, h.reason = 'ok', ''
            elif 'VERIFICATION:- FAILED' in blk:
                named = []
                other = []
                for f in fails:
                    m = re.search(r'\[(O-[\w-]+)((?:\s+C\d+)*)\]\s*(.*)', f)
                    if m:
                        named.append(dict(id=m.group(1), props=m.group(2).split(), message='kani: assertion failed: ' + m.group(3).strip('" '), detail=blk[-1500:]))
                    else:
                        other.append(f.strip())
                if named:
                    h.status = 'failed'
                    h.failed_obligations = named
                else:
                    # unwinding assertion, unsupported construct, arithmetic overflow in the harness...: not an alarm
                    h.status, h.reason = 'undecided', 'kani failed on a check that is not a named obligation: ' + '; '.join(other)[:300]
            else:
                h.status, h.reason = 'undecided', ('timeout after %ds' % tmo) if timed_out else 'no verdict in kani output'
        res.append(h)
    shutil.rmtree(scratch, ignore_errors=True)
    return res
