"""engine K (placeholder, replaced below)"""
TRUSTED = []


def run_harnesses(repo, names, tier, work, seed):
    return []
