"""vx: mechanical extraction of real function texts from /repo/src into a Verus unit file.

A unit template (contracts/<unit>.vt) is Verus text with directive blocks:

  //@calls name1,name2 += Tracked(t)            unit-wide ghost-argument table (R5)
  //@rw <rule> :: <regex> => <replacement>       unit-wide regex rewrite (R1,R6,R7,R9...)
  //@type <file> | <name>                         copy a struct/enum declaration
  //@fn <file> | <container-regex> | <fn name> [| closure <k>]
  //@header <text>                                (closures only) replacement header
  //@forbid <regex> :: <why>                       the function is lost (undecided) if the regex still matches the rewritten body
  //@props C01 C02
  //@ghost <params>                               appended to the parameter list
  //@ret <name>                                   name the return value
  //@requires <id> [props] / //@ensures <id> [props]     followed by expression lines
  //@start                                        ghost statements after the opening brace
  //@loop <k> [label=it] [hoist]                  k-th loop keyword of the body
  //@inv <id> [props] | //@inv_except_break ... | //@loop_ensures ... | //@decreases
  //@body_start | //@after_loop
  //@before <text> / //@after <text>              ghost statements at an anchored statement
  //@closure <k> => <replacement expr>            replace k-th closure expression (R8)
  //@lrw <regex> => <replacement>                 function-local rewrite
  //@lcalls name += Tracked(c)                    function-local ghost-argument rule
  //@endfn

Everything not in a directive block is copied verbatim (prelude: assumed specs, ghost
types, spec functions, lemmas).  The body of each @fn block is the byte-exact text of the
function in /repo/src plus the logged edits; nothing else.
"""
import re
import os
import json
from rscan import code_mask, match_close, find_code, find_container, find_fn, line_of, ScanError  # noqa



# D6: how a poisoned mutex is handled after `.lock()` is irrelevant to every property (lock() is assumed Ok): the rules
# that are written for `.lock().unwrap()` also accept `.expect(..)` and `.unwrap_or_else(|e| e.into_inner())`
LOCK_UNWRAP = r'\.lock\(\)(?:\.unwrap\(\)|\.expect\(\s*"[^"]*"\s*\)|\.unwrap_or_else\(\s*\|\s*\w+\s*\|\s*\w+\.into_inner\(\)\s*\)|\.unwrap_or_else\(\s*(?:std::sync::)?PoisonError::into_inner\s*\))'


def rule_rx(rx):
    return re.compile(rx.strip().replace(r'\.lock\(\)\.unwrap\(\)', LOCK_UNWRAP), re.S)



GUARD_SOURCES = r'(?:lock_tx|lock_pool|try_lock_pool|lock_middlewares|lock_reducers|lock_subs|lock_subs_unwrap|cs_lock_tx|cs_lock_handle|sel_lock)'
MUTATORS = r'(?:take|push|clear|retain|retain_mut|insert|remove|pop|drain|append|extend|extend_from_slice|truncate|swap_remove|replace|get_or_insert|get_or_insert_with|as_mut|iter_mut|sort|sort_by|sort_by_key|dedup|reverse|swap|split_off|resize|fill|rotate_left|rotate_right|first_mut|last_mut|get_mut|insert_mut)'


def unmodelled_guard_write(body):
    """the first write through a guard returned by one of the lock stand-ins (named or temporary) that is still in the
    rewritten body, or None"""
    mask = code_mask(body)
    code = ''.join(c if m else ' ' for c, m in zip(body, mask))
    # temporaries: lock_x(..)[.unwrap()|?].mutator(
    m = re.search(GUARD_SOURCES + r'\s*\((?:[^()]|\([^()]*\))*\)\s*(?:\.\s*unwrap\(\)\s*|\?\s*)?\.\s*' + MUTATORS + r'\s*\(', code)
    if m:
        return ' '.join(m.group(0).split())[:80]
    # named guards
    names = set()
    for m in re.finditer(r'\blet\s+(?:mut\s+)?(\w+)\s*(?::[^=;]+)?=\s*(?:match\s+)?' + GUARD_SOURCES + r'\s*\(', code):
        names.add(m.group(1))
    for m in re.finditer(r'\b(?:Ok|Some)\(\s*(?:mut\s+)?(\w+)\s*\)\s*(?:=>|=)\s*(?:match\s+)?' + GUARD_SOURCES + r'\s*\(', code):
        names.add(m.group(1))
    # `match lock_x(..) { Ok(mut g) => ..` / `if let Ok(mut g) = lock_x(..)`
    for m in re.finditer(r'(?:match|if\s+let\s+Ok\(\s*(?:mut\s+)?(\w+)\s*\)\s*=)\s*' + GUARD_SOURCES + r'\s*\(', code):
        if m.group(1):
            names.add(m.group(1))
    for m in re.finditer(r'match\s+' + GUARD_SOURCES + r'\s*\((?:[^()]|\([^()]*\))*\)\s*\{\s*Ok\(\s*(?:mut\s+)?(\w+)\s*\)', code):
        names.add(m.group(1))
    for n in names:
        for pat in (r'\b' + re.escape(n) + r'\s*\.\s*' + MUTATORS + r'\s*\(', r'\*\s*' + re.escape(n) + r'\s*=[^=]', r'(?<!pool_guard_take\()(?<!cs_drop_sender\()(?<!cs_take_handle\()(?<!guard_clear_subs\()(?<!sel_store\()(?<!retain_not_target\()&mut\s*\**\s*' + re.escape(n) + r'\b', r'\b' + re.escape(n) + r'\s*\.\s*deref_mut\s*\('):
            mm = re.search(pat, code)
            if mm:
                return ' '.join(mm.group(0).split())[:80]
    return None


class Undecided(Exception):
    """extraction could not be done (lost anchor, ambiguous match...) -> exit 2, never an alarm"""
    pass


# ---------------------------------------------------------------------------
# dropped items (D1, D2) -- applied to every extracted text, logged with counts
DROP_RULES = [
    ('D2', re.compile(r'[ \t]*#\[cfg\(dev\)\]\s*\n[ \t]*(?:eprintln|println)!\((?:[^()]|\([^()]*\))*\);[ \t]*\n')),
    ('D7', re.compile(r'[ \t]*(?:eprintln|println)!\((?:[^()]|\([^()]*\))*\);?[ \t]*(?=\n)')),
    ('D1', re.compile(r'[ \t]*#\[(?:derive|error|allow|default)\b[^\]]*\][ \t]*\n')),
    ('D1', re.compile(r'[ \t]*///[^\n]*\n')),
]


class Clause:
    def __init__(self, cid, kind, props, fn):
        self.id = cid
        self.kind = kind
        self.props = props
        self.fn = fn
        self.text = ''
        self.gen_lines = None  # (first,last) in generated file

    def to_json(self):
        return dict(id=self.id, kind=self.kind, props=self.props, fn=self.fn,
                    text=' '.join(self.text.split())[:400], gen_lines=self.gen_lines)


class FnSpec:
    def __init__(self):
        self.file = None
        self.container = None
        self.name = None
        self.closure = None
        self.header = None
        self.props = []
        self.ghost = None
        self.ret = None
        self.requires = []
        self.ensures = []
        self.start = []
        self.loops = {}
        self.anchors = []  # (where, text, lines)
        self.closures = {}  # k -> replacement
        self.lrw = []
        self.lcalls = []
        self.nocalls = []
        self.recommends = []
        self.attrs = []
        self.mutself = False
        self.canary_inplace = False
        self.forbid = []
        self.extraloops = 0
        self.binds = []   # (NAME, regex with one group): names of locals taken from the source text
        self.key = None
        self.src_span = None
        self.gen_span = None
        self.rewrites = []
        self.trusted = False

    @property
    def label(self):
        return self.key


class LoopSpec:
    def __init__(self):
        self.label = None
        self.hoist = False
        self.inv = []
        self.inv_except_break = []
        self.ensures = []
        self.decreases = []
        self.body_start = []
        self.after = []
        self.hoisted = []
        self.before = []


class Generated:
    def __init__(self):
        self.lines = []
        self.clauses = []
        self.fns = []
        self.line_src = {}  # gen line -> (file, src line)
        self.rewrite_log = []
        self.drop_counts = {}
        self.types = []
        self.lost = []   # (fn key, props, reason)
        self.lost_spans = []

    def text(self):
        return '\n'.join(self.lines) + '\n'

    def clause_at(self, line):
        for c in self.clauses:
            if c.gen_lines and c.gen_lines[0] <= line <= c.gen_lines[1]:
                return c
        return None

    def fn_at(self, line):
        for f in self.fns:
            if f.gen_span and f.gen_span[0] <= line <= f.gen_span[1]:
                return f
        return None


def parse_props(s):
    m = re.search(r'\[([^\]]*)\]', s)
    return m.group(1).split() if m else []


class Unit:
    def __init__(self, path, repo_src):
        self.path = path
        self.repo_src = repo_src
        self.name = os.path.splitext(os.path.basename(path))[0]
        self.calls = []  # (names, tokens)
        self.rws = []  # (rule, regex, repl)
        self._src_cache = {}

    def src(self, f):
        if f not in self._src_cache:
            p = os.path.join(self.repo_src, f)
            if not os.path.exists(p):
                raise Undecided('lost anchor: source file %s is missing' % f)
            t = open(p, encoding='utf-8').read()
            self._src_cache[f] = (t, code_mask(t))
        return self._src_cache[f]

    # -- template parsing ---------------------------------------------------
    def generate(self, canary=False, stub=()):
        gen = Generated()
        tl = []
        for ln in open(self.path, encoding='utf-8').read().split('\n'):
            if ln.strip().startswith('//@include '):
                inc = os.path.join(os.path.dirname(self.path), ln.strip()[len('//@include '):].strip())
                tl.append('// ---- include ' + os.path.basename(inc))
                tl += open(inc, encoding='utf-8').read().split('\n')
            else:
                tl.append(ln)
        i = 0
        # first pass: unit-wide tables
        for ln in tl:
            s = ln.strip()
            if s.startswith('//@calls '):
                names, toks = s[len('//@calls '):].split('+=')
                self.calls.append(([x.strip() for x in names.split(',')], toks.strip()))
            elif s.startswith('//@rw '):
                rule, rest = s[len('//@rw '):].split('::', 1)
                rx, repl = rest.rsplit('=>', 1)
                self.rws.append((rule.strip(), rule_rx(rx), repl.strip()))
        while i < len(tl):
            s = tl[i].strip()
            if s.startswith('//@fn '):
                j = i
                while tl[j].strip() != '//@endfn':
                    j += 1
                    if j >= len(tl):
                        raise Undecided('template error: //@fn without //@endfn at line %d' % (i + 1))
                spec = self.parse_fn_block(tl[i:j])
                mark = len(gen.lines)
                nlog = len(gen.rewrite_log)
                try:
                    if spec.key in stub:
                        raise Undecided(stub[spec.key] if isinstance(stub, dict) else 'rejected by Verus')
                    self.emit_fn(gen, spec, canary)
                except (Undecided, ScanError) as e:
                    # this function could not be brought into the unit: it becomes an assumed stub with its
                    # contract (so that its callers can still be checked) and is reported as lost; the
                    # properties that have clauses in it are undecided on this tree
                    del gen.lines[mark:]
                    del gen.rewrite_log[nlog:]
                    self.emit_stub(gen, spec, str(e))
                i = j + 1
            elif s.startswith('//@type '):
                f, name = [x.strip() for x in s[len('//@type '):].split('|')]
                self.emit_type(gen, f, name)
                i += 1
            elif s.startswith('//@const '):
                f, name = [x.strip() for x in s[len('//@const '):].split('|')]
                text, mask = self.src(f)
                ms = [m for m in find_code(text, mask, r'(?m)^(?:pub(?:\([a-z]+\))?\s+)?const\s+' + re.escape(name) + r'\s*:[^;]*;')]
                if len(ms) != 1:
                    raise Undecided('lost anchor: const %s in %s (%d matches)' % (name, f, len(ms)))
                gen.lines.append('// ---- extracted const %s from %s:%d' % (name, f, line_of(text, ms[0].start())))
                gen.lines.append(re.sub(r'^pub\([a-z]+\)', 'pub', ms[0].group(0)))
                i += 1
            elif s.startswith('//@@ '):
                # named clause in hand-written text: applies to the next line
                rest = s[len('//@@ '):]
                c = Clause(rest.split()[0], 'prelude', parse_props(rest), 'prelude')
                gen.lines.append('// ' + s[4:])
                gen.lines.append(tl[i + 1])
                c.text = tl[i + 1]
                c.gen_lines = (len(gen.lines), len(gen.lines))
                gen.clauses.append(c)
                i += 2
            elif s.startswith('//@calls ') or s.startswith('//@rw '):
                gen.lines.append('// ' + s[3:])
                i += 1
            else:
                gen.lines.append(tl[i])
                i += 1
        return gen

    def parse_fn_block(self, lines):
        spec = FnSpec()
        parts = [x.strip() for x in lines[0].strip()[len('//@fn '):].split('|')]
        spec.file, spec.container, spec.name = parts[0], parts[1], parts[2]
        if len(parts) > 3 and parts[3].startswith('closure'):
            sel = parts[3].split(None, 1)[1].strip()
            spec.closure = [(x.strip() if x.strip().startswith('~') else int(x)) for x in (sel.split('/') if '~' in sel else sel.split('.'))]
        spec.key = '%s::%s%s' % (spec.file, spec.name, ('#closure%s' % '.'.join(map(str, spec.closure))) if spec.closure is not None else '')
        cur = None  # list to append content lines to
        curloop = None
        for ln in lines[1:]:
            s = ln.strip()
            if not s.startswith('//@'):
                if cur is not None:
                    if isinstance(cur, Clause):
                        cur.text += ln + '\n'
                    else:
                        cur.append(ln)
                continue
            d = s[3:]
            word = d.split()[0] if d.split() else ''
            rest = d[len(word):].strip()
            if word == 'props':
                spec.props = rest.split(); cur = None
            elif word == 'key':
                spec.key = rest; cur = None
            elif word == 'header':
                spec.header = rest; cur = None
            elif word == 'ghost':
                spec.ghost = rest; cur = None
            elif word == 'attr':
                spec.attrs.append(rest); cur = None
            elif word == 'mutself':
                spec.mutself = True; cur = None
            elif word == 'bind':
                nm, rx = rest.split(None, 1)
                spec.binds.append((nm, rule_rx(rx))); cur = None
            elif word == 'canary':
                spec.canary_inplace = (rest.strip() == 'inplace'); cur = None
            elif word == 'ret':
                spec.ret = rest; cur = None
            elif word in ('requires', 'ensures'):
                c = Clause(rest.split()[0], word, parse_props(rest) or spec.props, spec.key)
                getattr(spec, word).append(c); cur = c
            elif word == 'start':
                cur = spec.start
            elif word == 'loop':
                k0 = rest.split()[0]
                k = k0 if k0.startswith('~') else int(k0)
                curloop = spec.loops.setdefault(k, LoopSpec())
                m = re.search(r'label=(\w+)', rest)
                if m:
                    curloop.label = m.group(1)
                curloop.hoist = 'hoist' in rest.split()
                cur = None
            elif word in ('inv', 'inv_except_break', 'loop_ensures'):
                c = Clause(rest.split()[0], word, parse_props(rest) or spec.props, spec.key)
                {'inv': curloop.inv, 'inv_except_break': curloop.inv_except_break, 'loop_ensures': curloop.ensures}[word].append(c)
                cur = c
            elif word == 'decreases':
                cur = curloop.decreases
            elif word == 'body_start':
                cur = curloop.body_start
            elif word == 'after_loop':
                cur = curloop.after
            elif word == 'hoisted':
                cur = curloop.hoisted
            elif word == 'before_loop':
                cur = curloop.before
            elif word in ('before', 'after'):
                a = (word, rest, [])
                spec.anchors.append(a); cur = a[2]
            elif word == 'closure':
                k, repl = rest.split('=>', 1)
                k = k.strip()
                spec.closures[int(k) if k.isdigit() else k] = repl.strip(); cur = None
            elif word == 'lrw':
                rx, repl = rest.rsplit('=>', 1)
                spec.lrw.append(('L', rule_rx(rx), repl.strip())); cur = None
            elif word == 'lcalls':
                names, toks = rest.split('+=')
                spec.lcalls.append(([x.strip() for x in names.split(',')], toks.strip())); cur = None
            elif word == 'extraloops':
                spec.extraloops = int(rest.strip()); cur = None
            elif word == 'forbid':
                rx, _, why = rest.partition('::')
                spec.forbid.append((re.compile(rx.strip(), re.S), why.strip() or 'construct the model cannot interpret')); cur = None
            elif word == 'nocalls':
                spec.nocalls += [x.strip() for x in rest.split(',')]; cur = None
            else:
                raise Undecided('template error: unknown directive %r' % s)
        return spec

    # -- locating -------------------------------------------------------------
    def locate(self, spec):
        text, mask = self.src(spec.file)
        lo, hi = 0, len(text)
        if spec.container and spec.container != '-':
            cs = find_container(text, mask, spec.container)
            if len(cs) > 1:
                # several impl blocks with the same header (a maintainer may split an impl): the one that holds the function
                cs = [c for c in cs if [f for f in find_fn(text, mask, spec.name, c[1], c[2]) if f['bopen'] is not None]]
            if len(cs) != 1:
                raise Undecided('lost anchor: %d containers match %r in %s' % (len(cs), spec.container, spec.file))
            lo, hi = cs[0][1], cs[0][2]
        fs = [f for f in find_fn(text, mask, spec.name, lo, hi) if f['bopen'] is not None]
        # only direct children of the container (depth 1), not nested fns
        if len(fs) != 1:
            raise Undecided('lost anchor: %d functions named %s in %s / %r' % (len(fs), spec.name, spec.file, spec.container))
        return text, mask, fs[0]

    @staticmethod
    def closures_in(text, mask, lo, hi):
        """closure expressions `[Box::new(] move |..| {..} [)]` or `|..| {..}` in [lo,hi): list of (expr_start, expr_end, params, body_open, body_close)"""
        out = []
        pos = lo
        for m in find_code(text, mask, r'(?:Box::new\(\s*)?(?:move\s*)?\|([^|]*)\|\s*(?:->\s*[^{]+)?\{', lo, hi):
            if m.start() < pos:
                continue
            # reject `||` boolean operators: require previous code char to be one of ( , = or start
            k = m.start() - 1
            while k >= lo and text[k] in ' \t\n':
                k -= 1
            if text[k] not in '(,=' and not text[m.start():].startswith('Box::new'):
                continue
            bopen = m.end() - 1
            bclose = match_close(text, mask, bopen)
            end = bclose + 1
            if text[m.start():].startswith('Box::new'):
                j = end
                while text[j] in ' \t\n':
                    j += 1
                if text[j] != ')':
                    raise Undecided('closure %d: Box::new( not closed directly after the closure body' % len(out))
                end = j + 1
            out.append((m.start(), end, m.group(1), bopen, bclose))
            pos = end
        return out

    # -- emission ---------------------------------------------------------------
    def emit_type(self, gen, f, name):
        text, mask = self.src(f)
        cs = find_container(text, mask, r'^(?:pub(?:\([a-z]+\))?\s+)?(?:struct|enum)\s+' + re.escape(name) + r'\b')
        if len(cs) != 1:
            raise Undecided('lost anchor: type %s in %s (%d matches)' % (name, f, len(cs)))
        s, bo, bc = cs[0]
        body = text[s:bc + 1]
        body, log = self.apply_rewrites(body, [], f, line_of(text, s))
        gen.rewrite_log += log
        # R4: private fields become pub (visibility has no run-time meaning; Verus treats a type with
        # private fields as opaque outside its module)
        def _pub(m):
            gen.rewrite_log.append(dict(rule='R4', file=f, before=m.group(0).strip(), after='pub ' + m.group(0).strip()))
            return m.group(1) + 'pub ' + m.group(2)
        body = re.sub(r'(?m)^(\s+)([a-z_]\w*\s*:\s)', _pub, body)
        first = len(gen.lines) + 1
        gen.lines.append('// ---- extracted type %s from %s:%d-%d' % (name, f, line_of(text, s), line_of(text, bc)))
        for k, ln in enumerate(body.split('\n')):
            gen.lines.append(ln)
        gen.types.append(dict(name=name, file=f, src_lines=[line_of(text, s), line_of(text, bc)], gen_lines=[first, len(gen.lines)]))

    def apply_rewrites(self, body, local, f, base_line, drop_counts=None):
        log = []
        for rule, rx in DROP_RULES:
            def _d(m):
                log.append(dict(rule=rule, file=f, before=' '.join(m.group(0).split())[:120], after=''))
                # keep line structure so that line numbers stay aligned
                return '\n' * m.group(0).count('\n')
            body = rx.sub(_d, body)
        for rule, rx, repl in list(self.rws) + list(local):
            def _r(m, rule=rule, repl=repl):
                new = m.expand(repl)
                log.append(dict(rule=rule, file=f, before=' '.join(m.group(0).split())[:160], after=' '.join(new.split())[:160]))
                # keep the number of newlines
                diff = m.group(0).count('\n') - new.count('\n')
                return new + ('\n' * diff if diff > 0 else '')
            body = rx.sub(_r, body)
        return body, log

    def append_call_tokens(self, body, spec, f):
        """R5: append ghost arguments to calls of the listed functions"""
        log = []
        table = list(spec.lcalls) + [(n, t) for (n, t) in self.calls]
        done = set()
        for names, toks in table:
            for name in names:
                if name in done or name in spec.nocalls:
                    continue
                done.add(name)
                mask = code_mask(body)
                pos = 0
                while True:
                    ms = [m for m in find_code(body, mask, r'(?<![\w])' + re.escape(name) + r'\s*\(', pos)]
                    # method or path call only: preceded by '.' or '::' or start-of-token; skip `fn name(`
                    m = None
                    for cand in ms:
                        pre = body[:cand.start()].rstrip()
                        if pre.endswith('fn'):
                            continue
                        m = cand
                        break
                    if m is None:
                        break
                    popen = m.end() - 1
                    pclose = match_close(body, mask, popen)
                    inner = body[popen + 1:pclose]
                    stripped = inner.rstrip()
                    if stripped == '':
                        new_inner = toks
                    elif stripped.endswith(','):
                        new_inner = inner.rstrip() + ' ' + toks + inner[len(inner.rstrip()):]
                    else:
                        new_inner = inner.rstrip() + ', ' + toks + inner[len(inner.rstrip()):]
                    log.append(dict(rule='R5', file=f, before=name + '(..)', after=name + '(.., ' + toks + ')'))
                    body = body[:popen + 1] + new_inner + body[pclose:]
                    mask = code_mask(body)
                    pos = popen + 1
        return body, log

    def emit_fn(self, gen, spec, canary):
        text, mask, fn = self.locate(spec)
        f = spec.file
        if spec.closure is None:
            sig = text[fn['start']:fn['bopen']]
            bopen, bclose = fn['bopen'], fn['bclose']
            cl_in_body = self.closures_in(text, mask, bopen + 1, bclose)
        else:
            lo_, hi_ = fn['bopen'] + 1, fn['bclose']
            for depth_, k_ in enumerate(spec.closure):
                cls = self.closures_in(text, mask, lo_, hi_)
                if isinstance(k_, str):
                    hits = [c for c in cls if re.search(k_.lstrip('~').strip(), text[c[0]:c[1]], re.S)]
                    if len(hits) != 1:
                        raise Undecided('lost anchor: %d closures match %r in %s' % (len(hits), k_, spec.name))
                    cstart, cend, cparams, bopen, bclose = hits[0]
                    lo_, hi_ = bopen + 1, bclose
                    continue
                if k_ >= len(cls):
                    raise Undecided('lost anchor: closure %s of %s (found %d at depth %d)' % ('.'.join(map(str, spec.closure)), spec.name, len(cls), depth_))
                cstart, cend, cparams, bopen, bclose = cls[k_]
                lo_, hi_ = bopen + 1, bclose
            if spec.header is None:
                raise Undecided('template error: closure fn needs //@header')
            sig = None
            cl_in_body = self.closures_in(text, mask, bopen + 1, bclose)
        body_src = text[bopen:bclose + 1]
        src_first, src_last = line_of(text, bopen if sig is None else fn['start']), line_of(text, bclose)
        if spec.binds:
            # names of locals are read from the source so that a renamed local does not lose the contract
            env = {}
            for nm, rx in spec.binds:
                mm = rx.search(body_src)
                if not mm:
                    raise Undecided('lost anchor: cannot bind %s in %s' % (nm, spec.key))
                env[nm] = mm.group(1)
            def sub(txt):
                for nm, val in env.items():
                    txt = txt.replace('${%s}' % nm, val)
                return txt
            for c in spec.requires + spec.ensures:
                c.text = sub(c.text)
            spec.start = [sub(x) for x in spec.start]
            spec.anchors = [(w, sub(a), [sub(x) for x in ls_]) for (w, a, ls_) in spec.anchors]
            for ls in spec.loops.values():
                for c in ls.inv + ls.inv_except_break + ls.ensures:
                    c.text = sub(c.text)
                ls.body_start = [sub(x) for x in ls.body_start]
                ls.after = [sub(x) for x in ls.after]
                ls.hoisted = [sub(x) for x in ls.hoisted]
                ls.before = [sub(x) for x in ls.before]
                ls.decreases = [sub(x) for x in ls.decreases]
        spec.src_span = (f, src_first, src_last)

        # ---- body edits on the original text (positions relative to bopen) ----
        edits = []  # (start, end, replacement) relative to body_src
        # closures replaced by constructors (R8)
        for k, repl in spec.closures.items():
            if isinstance(k, str):
                # `~regex`: the closure whose text matches; a closure that is no longer there is simply not replaced
                hits = [c for c in cl_in_body if re.search(k.lstrip('~').strip(), text[c[0]:c[1]], re.S)]
                if len(hits) == 0:
                    continue
                if len(hits) > 1:
                    raise Undecided('ambiguous anchor: %d closures match %r in %s' % (len(hits), k, spec.key))
                cs, ce = hits[0][0], hits[0][1]
            else:
                if k >= len(cl_in_body):
                    raise Undecided('lost anchor: closure %d in %s (found %d)' % (k, spec.key, len(cl_in_body)))
                cs, ce = cl_in_body[k][0], cl_in_body[k][1]
            old = text[cs:ce]
            edits.append((cs - bopen, ce - bopen, repl + '\n' * old.count('\n')))
            gen.rewrite_log.append(dict(rule='R8', file=f, fn=spec.key, before=' '.join(old.split())[:100] + ' ...', after=repl))
        edits.sort()
        body = body_src
        for s, e, r in reversed(edits):
            body = body[:s] + r + body[e:]

        # regex rewrites + dropped items
        body, log = self.apply_rewrites(body, spec.lrw, f, src_first)
        for l in log:
            l['fn'] = spec.key
        gen.rewrite_log += log
        body, log = self.append_call_tokens(body, spec, f)
        for l in log:
            l['fn'] = spec.key
        gen.rewrite_log += log
        for (frx, fwhy) in spec.forbid:
            code_only = ''.join(c if m_ else ' ' for c, m_ in zip(body, code_mask(body)))
            fm = frx.search(code_only)
            if fm:
                raise Undecided('unsupported: %s (%s) in %s' % (fwhy, ' '.join(fm.group(0).split())[:60], spec.key))
        # a loop that has no invariant attached loses every fact about what it may touch: a function that has grown a loop
        # the template does not know is not verified against the old contract
        code_only = ''.join(c if m_ else ' ' for c, m_ in zip(body, code_mask(body)))
        n_loops = len(re.findall(r'\b(?:while|loop|for)\b[^;{}]*\{', code_only))
        if n_loops > len(spec.loops) + spec.extraloops:
            raise Undecided('unsupported: %d loops in %s, the contract has invariants for %d (+%d known to need none)' % (n_loops, spec.key, len(spec.loops), spec.extraloops))
        bad = unmodelled_guard_write(body)
        if bad:
            # a write through a mutex guard is invisible to Verus unless a rewrite rule (R6) turned it into a call of a
            # cell helper: verifying the function anyway would decide it against a model that ignores that write
            raise Undecided('unsupported: write through a mutex guard that no rewrite rule covers (%s) in %s' % (bad, spec.key))

        if spec.mutself:
            # R14: `mut self` (by-value, mutable) is outside the Verus subset: bind it to a local
            n = len(re.findall(r'\bself\b', body))
            body = re.sub(r'\bself\b', 'self_', body)
            body = '{ let mut self_ = self;' + body[1:]
            gen.rewrite_log.append(dict(rule='R14', file=f, fn=spec.key, before='fn f(mut self ..) { ..self.. }', after='fn f(self ..) { let mut self_ = self; ..self_.. } (%d occurrences)' % n))

        # ---- anchored ghost statements ---------------------------------------------
        for where, anchor, lines in spec.anchors:
            cnt = body.count(anchor)
            if cnt != 1:
                raise Undecided('lost anchor: %r occurs %d times in %s' % (anchor, cnt, spec.key))
            p = body.index(anchor)
            if where == 'before':
                ls_ = body.rfind('\n', 0, p) + 1
                body = body[:ls_] + '\n'.join(lines) + '\n' + body[ls_:]
            else:
                # after the end of the statement: next ';' at depth 0 from anchor
                bm = code_mask(body)
                j = p
                while not (bm[j] and body[j] == ';'):
                    if bm[j] and body[j] in '([{':
                        j = match_close(body, bm, j)
                    j += 1
                body = body[:j + 1] + '\n' + '\n'.join(lines) + body[j + 1:]

        # ---- loops -------------------------------------------------------------
        bmask = code_mask(body)
        loops = [m for m in find_code(body, bmask, r'(?<![\w])(for|while|loop)\b')]
        loops = [m for m in loops if not re.match(r'for\s*<', body[m.start():])]
        inserts = []  # (pos, text)  pos in body
        def _loop_extent(m_):
            j_ = m_.end()
            while not (bmask[j_] and body[j_] == '{'):
                if bmask[j_] and body[j_] in '([':
                    j_ = match_close(body, bmask, j_)
                j_ += 1
            return j_, match_close(body, bmask, j_)
        for k, ls in sorted(spec.loops.items(), key=lambda kv: str(kv[0])):
            if isinstance(k, str):
                # `~regex`: the unique loop whose text (header and body) matches
                rx_ = re.compile(k[1:], re.S)
                hits = [mm for mm in loops if rx_.search(body[mm.start():_loop_extent(mm)[1] + 1])]
                if len(hits) != 1:
                    raise Undecided('lost anchor: %d loops match %r in %s' % (len(hits), k, spec.key))
                m = hits[0]
            else:
                if k >= len(loops):
                    raise Undecided('lost anchor: loop %d in %s (found %d loops)' % (k, spec.key, len(loops)))
                m = loops[k]
            # loop body open brace: first '{' at code position, bracket depth 0 after keyword
            j = m.end()
            while not (bmask[j] and body[j] == '{'):
                if bmask[j] and body[j] in '([':
                    j = match_close(body, bmask, j)
                j += 1
            lbopen = j
            lbclose = match_close(body, bmask, lbopen)
            head = body[m.start():lbopen]
            kw = m.group(1)
            pre = ''
            post = ''
            new_head = head
            if kw == 'for':
                hm = re.match(r'for\s+(.+?)\s+in\s+(.+?)\s*$', head, re.S)
                if not hm:
                    raise Undecided('cannot parse for-loop header in %s' % spec.key)
                pat, expr = hm.group(1), hm.group(2)
                if ls.hoist:
                    im = re.match(r'(.+)\.iter\(\)$', expr, re.S)
                    if not im:
                        raise Undecided('hoist: loop %s in %s does not iterate over <expr>.iter()' % (k, spec.key))
                    gname = '__guard%d' % (loops.index(m))
                    pre = '{ let %s = %s; %s' % (gname, im.group(1), ('\n' + '\n'.join(x.replace('${GUARD}', gname) for x in ls.hoisted) + '\n') if ls.hoisted else '')
                    expr = '%s.iter()' % gname
                    post = ' }'
                    gen.rewrite_log.append(dict(rule='R2', file=f, fn=spec.key, before=' '.join(head.split()), after='{ let %s = ..; for .. in %s.iter() }' % (gname, gname)))
                lab = (ls.label + ': ') if ls.label else ''
                if ls.label:
                    gen.rewrite_log.append(dict(rule='R3', file=f, fn=spec.key, before='for', after='for .. in %s:' % ls.label))
                new_head = pre + 'for %s in %s%s ' % (pat, lab, expr)
            clause_txt = self.render_loop_clauses(ls)
            inserts.append((m.start(), lbopen, new_head, clause_txt, ls, lbopen, lbclose, post))
        # apply loop edits from the end
        loop_marks = []
        for (hs, he, new_head, clause_txt, ls, lbopen, lbclose, post) in sorted(inserts, key=lambda x: -x[0]):
            after_txt = ('\n' + '\n'.join(ls.after) + '\n') if ls.after else ''
            bs_txt = ('\n' + '\n'.join(ls.body_start) + '\n') if ls.body_start else ''
            before_txt = ('\n'.join(ls.before) + '\n') if ls.before else ''
            body = (body[:hs] + before_txt + new_head + '\x00LOOPCLAUSES%d\x00' % id(ls) + '{' + bs_txt + body[lbopen + 1:lbclose + 1]
                    + after_txt + post + body[lbclose + 1:])
            loop_marks.append(ls)

        # start statements
        if spec.start:
            body = '{\n' + '\n'.join(spec.start) + body[1:]

        # ---- header -------------------------------------------------------------------
        if sig is not None:
            hdr = self.make_header(spec, sig, gen, f, src_first)
        else:
            hdr = spec.header + '\n'
            gen.rewrite_log.append(dict(rule='R8', file=f, fn=spec.key, before='closure header', after=spec.header))

        # ---- emit -----------------------------------------------------------------------
        gen.lines.append('// ---- extracted fn %s from %s:%d-%d' % (spec.key, f, src_first, src_last))
        gfirst = len(gen.lines) + 1
        self.emit_fn_text(gen, spec, hdr, body, loop_marks, None)
        spec.gen_span = (gfirst, len(gen.lines))
        gen.fns.append(spec)
        gen.clauses += spec.requires + spec.ensures
        # a failed loop clause is assumed by Verus for the rest of the function, so it compromises every
        # postcondition of the function: loop clauses carry the properties of all the function's ensures
        fn_props = set()
        for c in spec.ensures:
            fn_props |= set(c.props or [])
        for ls in spec.loops.values():
            for c in ls.inv + ls.inv_except_break + ls.ensures:
                c.props = sorted(set(c.props or []) | fn_props)
            gen.clauses += ls.inv + ls.inv_except_break + ls.ensures
        if canary:
            # vacuity canary: a copy of the function (same contract, same body) with the extra clause
            # `ensures false`, which must FAIL.  It is a copy so that callers never see the false clause.
            c = Clause('CANARY-' + spec.key, 'ensures', [], spec.key)
            c.text = 'false\n'
            if spec.canary_inplace:
                # trait-impl methods cannot be duplicated; they are not called by other extracted code
                del gen.lines[gfirst - 1:]
                self.emit_fn_text(gen, spec, hdr, body, loop_marks, c)
                spec.gen_span = (gfirst, len(gen.lines))
            else:
                hdr2 = re.sub(r'\bfn\s+(\w+)', lambda m: 'fn ' + m.group(1) + '__canary', hdr, count=1)
                gen.lines.append('// ---- vacuity canary copy of %s' % spec.key)
                self.emit_fn_text(gen, spec, hdr2, body, loop_marks, c, register=False)
            gen.clauses.append(c)

    def make_header(self, spec, sig, gen, f, src_first):
        hdr = sig
        hdr = re.sub(r'^(\s*)pub(\([a-z]+\))?\s+', r'\1', hdr)
        if spec.mutself:
            hdr = re.sub(r'\(\s*mut self\b', '(self', hdr, count=1)
        hmask = code_mask(hdr)
        hp = [m for m in find_code(hdr, hmask, r'\bfn\s+' + re.escape(spec.name) + r'\b')][0]
        j = hp.end()
        depth = 0
        while True:
            if hmask[j] and hdr[j] == '<':
                depth += 1
            elif hmask[j] and hdr[j] == '>' and hdr[j - 1] != '-':
                depth -= 1
            elif hmask[j] and hdr[j] == '(' and depth == 0:
                break
            j += 1
        popen = j
        pclose = match_close(hdr, hmask, popen)
        params = hdr[popen + 1:pclose]
        tail = hdr[pclose + 1:]
        if spec.ghost:
            if params.strip() == '':
                params = spec.ghost
            elif params.rstrip().endswith(','):
                params = params.rstrip() + ' ' + spec.ghost + ',\n    '
            else:
                params = params.rstrip() + ', ' + spec.ghost
        if spec.ret:
            tm = re.match(r'(\s*)->\s*(.+?)(\s*(?:where\b.*)?)$', tail, re.S)
            if tm:
                tail = '%s-> (%s: %s)%s' % (tm.group(1), spec.ret, tm.group(2).strip(), tm.group(3))
            else:
                raise Undecided('ret name given but %s has no return type' % spec.key)
        hdr = hdr[:popen + 1] + params + ')' + tail
        hdr, log = self.apply_rewrites(hdr, spec.lrw, f, src_first)
        for l in log:
            l['fn'] = spec.key
        gen.rewrite_log += log
        return hdr

    def emit_stub(self, gen, spec, reason):
        hdr = None
        if spec.header is not None:
            hdr = spec.header
        else:
            try:
                text, mask, fn = self.locate(spec)
                hdr = self.make_header(spec, text[fn['start']:fn['bopen']], gen, spec.file, 0)
            except (Undecided, ScanError) as e:
                # the function is not where the template expects it (removed, renamed, moved): nothing is emitted for it;
                # its properties are undecided, and any extracted caller that still needs it is rejected (and stubbed) in turn
                props = set(spec.props)
                for c in spec.requires + spec.ensures:
                    props |= set(c.props or [])
                for ls in spec.loops.values():
                    for c in ls.inv + ls.inv_except_break + ls.ensures:
                        props |= set(c.props or [])
                gen.lost.append((spec.key, sorted(props), '%s; not found, no stub emitted: %s' % (reason, e)))
                gen.lines.append('// ---- LOST fn %s (no stub): %s' % (spec.key, reason.replace('\n', ' ')))
                return
        props = set(spec.props)
        for c in spec.requires + spec.ensures:
            props |= set(c.props or [])
        for ls in spec.loops.values():
            for c in ls.inv + ls.inv_except_break + ls.ensures:
                props |= set(c.props or [])
        gen.lost.append((spec.key, sorted(props), reason))
        try:
            text_, mask_, fn_ = self.locate(spec)
            gen.lost_spans.append((spec.file, line_of(text_, fn_['start']), line_of(text_, fn_['bclose'])))
        except Exception:
            pass
        gen.lines.append('// ---- LOST fn %s: %s' % (spec.key, reason.replace('\n', ' ')))
        gen.lines.append('#[verifier::external_body]')
        for a in spec.attrs:
            gen.lines.append(a)
        for ln in hdr.rstrip().split('\n'):
            gen.lines.append(ln)
        self.emit_clauses(gen, 'requires', spec.requires, False)
        self.emit_clauses(gen, 'ensures', spec.ensures, False)
        gen.lines.append('{ unimplemented!() }')

    def emit_fn_text(self, gen, spec, hdr, body, loop_marks, canary_clause, register=True):
        # termination is never claimed (partial correctness): a loop without a contract must not be an error
        if not any('exec_allows_no_decreases_clause' in a for a in spec.attrs) and not any('exec_allows_no_decreases_clause' in (spec.header or '') for _ in [0]):
            gen.lines.append('#[verifier::exec_allows_no_decreases_clause]')
        for a in spec.attrs:
            gen.lines.append(a)
        for ln in hdr.rstrip().split('\n'):
            gen.lines.append(ln)
        self.emit_clauses(gen, 'requires', spec.requires, register)
        ens = list(spec.ensures)
        self.emit_clauses(gen, 'ensures', ens, register, extra=canary_clause)
        parts = re.split(r'\x00LOOPCLAUSES(\d+)\x00', body)
        byid = {str(id(ls)): ls for ls in loop_marks}
        for idx, part in enumerate(parts):
            if idx % 2 == 1:
                self.emit_loop_clauses(gen, byid[part], register)
                continue
            for ln in part.split('\n'):
                gen.lines.append(ln)

    def render_loop_clauses(self, ls):
        return ''

    def emit_clauses(self, gen, kw, clauses, register=True, extra=None):
        if not clauses and extra is None:
            return
        gen.lines.append('    ' + kw)
        for c in list(clauses) + ([extra] if extra is not None else []):
            first = len(gen.lines) + 1
            gen.lines.append('        // %s %s' % (c.id, ' '.join(c.props)))
            gen.lines.append('        (')
            for ln in c.text.rstrip('\n').split('\n'):
                gen.lines.append('        ' + ln)
            gen.lines.append('        ),')
            if register or c is extra:
                c.gen_lines = (first, len(gen.lines))

    def emit_loop_clauses(self, gen, ls, register=True):
        gen.lines.append('')
        self.emit_clauses(gen, 'invariant_except_break', ls.inv_except_break, register)
        self.emit_clauses(gen, 'invariant', ls.inv, register)
        self.emit_clauses(gen, 'ensures', ls.ensures, register)
        if ls.decreases:
            gen.lines.append('    decreases')
            for ln in ls.decreases:
                gen.lines.append('        ' + ln)


# ---------------------------------------------------------------------------
def trusted_items(gen):
    """names of assumed contracts in the generated unit (external_body fns, assume_specification targets)"""
    out = []
    lines = gen.lines
    for i, ln in enumerate(lines):
        s = ln.strip()
        m = re.search(r'assume_specification(?:<[^\[]*>)?\s*\[\s*([^\]]+?)\s*\]', s)
        if m:
            out.append('assume_specification: ' + ' '.join(m.group(1).split()))
        if 'external_body' in s and not s.startswith('//'):
            # name of the next fn / struct
            for j in range(i, min(i + 6, len(lines))):
                m2 = re.search(r'\b(?:proof\s+)?fn\s+(\w+)|\bstruct\s+(\w+)', lines[j])
                if m2:
                    out.append('external_body: ' + (m2.group(1) or m2.group(2)))
                    break
    return sorted(set(out))


CHEATS = re.compile(r'\b(assume|admit)\s*\(')


def scan_spliced_for_cheats(gen):
    """`assume`/`admit` are never allowed, neither in spliced proof text nor in extracted bodies"""
    for i, ln in enumerate(gen.lines):
        s = ln.split('//')[0]
        if CHEATS.search(s) and 'assume_specification' not in s:
            return 'line %d: %s' % (i + 1, ln.strip()[:80])
    return None


def baseline_count(path, unit, prop):
    if not os.path.exists(path):
        return None
    for ln in open(path):
        parts = ln.split()
        if len(parts) == 3 and parts[0] == unit and parts[1] == prop:
            return int(parts[2])
    return None


# ---------------------------------------------------------------------------
# census of accesses to the mutex-protected cells: every `.field.lock(` / `.field.try_lock(` in the
# non-test code of /repo/src must lie inside a function that is under contract; an access elsewhere is
# a reader/writer the contracts do not see (the properties that rest on that cell become undecided)
CELL_FIELDS = {
    'state': ['C01', 'C08'], 'last_value': ['C16'], 'dispatch_tx': ['C02', 'C04', 'C05', 'C06'], 'pool': ['C04', 'C11', 'C15'],
    'subscribers': ['C03', 'C09', 'C14'], 'reducers': ['C01', 'C07', 'C17'], 'middlewares': ['C07', 'C12', 'C17'],
    'tx': ['C10', 'C09'], 'handle': ['C10', 'C09'],
}


def cell_census(gen, repo_src):
    """returns list of (file, line, field, props) for accesses outside the functions under contract"""
    spans = {}
    for f in gen.fns:
        fl, a, b = f.src_span
        spans.setdefault(fl, []).append((a, b))
    for (fl, a, b) in gen.lost_spans:
        spans.setdefault(fl, []).append((a, b))
    out = []
    for fn_ in sorted(os.listdir(repo_src)):
        if not fn_.endswith('.rs'):
            continue
        text = open(os.path.join(repo_src, fn_), encoding='utf-8').read()
        cut = text.find('#[cfg(test)]')
        body = text if cut < 0 else text[:cut]
        mask = code_mask(body)
        for field, props in CELL_FIELDS.items():
            for m in find_code(body, mask, r'\.' + field + r'\s*\.\s*(?:lock|try_lock|get_mut|into_inner)\s*\('):
                ln = line_of(body, m.start())
                if not any(a <= ln <= b for (a, b) in spans.get(fn_, [])):
                    out.append((fn_, ln, field, props))
    return out
