"""Witness search and replay on the real code (DESIGN.md 3.6).

The harness /verif/witness/witness_harness.rs is attached to a scratch copy of the working tree as a
#[cfg(test)] module of src/store_impl.rs and run with `cargo test --offline`.  It enumerates small
configurations exhaustively through the real functions and compares with the reference semantics.
A hit is a real execution: it is reported as a violation with its input.  No hit proves nothing.
"""
import json
import os
import shutil
import subprocess
import tempfile

HERE = os.path.dirname(os.path.abspath(__file__))
HARNESS = os.path.abspath(os.path.join(HERE, '..', 'witness', 'witness_harness.rs'))

SUITES = {
    'C01': ['pipeline', 'loop'], 'C02': ['loop', 'block'], 'C03': ['pipeline', 'loop', 'subs'], 'C04': ['loop', 'subs', 'twostores', 'block'],
    'C05': ['channel', 'block'], 'C06': ['channel', 'balance'], 'C07': ['pipeline', 'loop', 'subs', 'latereg'], 'C08': ['loop'], 'C09': ['subs'],
    'C10': ['channeled'], 'C11': ['pipeline', 'loop', 'block'], 'C12': ['pipeline', 'loop'], 'C14': ['iter'], 'C15': ['subs', 'loop'], 'C16': ['selector'],
    'C17': ['builder'], 'C18': ['pipeline', 'loop', 'channel', 'balance'], 'C19': ['twostores'],
}
BOUNDS = ('pipeline: 0..2 middlewares x 4 verdicts x 3 hooks x 5 reducer chains x {0,2} subscribers; loop: 5 chains x {0,1,3} subscribers x '
          'capacities {1,2,16} x 5 action sequences (<= 7); channel: 3 policies x capacities 1..3 x bursts <= 2*cap+2; builder: all call '
          'sequences <= 2 (+4 third calls) over 12 setters; selector: all sequences over 3 values up to length 5; subs: 1..4 subscribers x target x {stop, drop}; block: 2 entry points x capacities {1,2,4} with the reducer parked (+ closerace, reentrant, effectaction); channeled: 3 policies x capacities {1,3} x {unsubscribe, stop} with the subscriber parked; iter: 5 scenarios (<= 5 actions, Keep mix, full DropLatest queue at close); latereg: reducer / middleware / subscriber registered from another thread while an action is being reduced; twostores: stop of one store from a subscriber of another, equal/different names; balance: the equations of C18 after stop() for 3 policies x capacities {1,2} x {0,2} dispatches after close x with/without a vetoing middleware, the reducer parked while the queue fills')


def _run(repo, mode, work, timeout=900):
    scratch = os.path.join(work, 'witness_src')
    if not os.path.exists(scratch):
        os.makedirs(scratch)
        subprocess.run(['rsync', '-a', '--exclude', 'target', '--exclude', '.git', repo.rstrip('/') + '/', scratch + '/'], check=True)
        with open(os.path.join(scratch, 'src', 'store_impl.rs'), 'a') as fh:
            fh.write('\n#[cfg(test)] #[path = "%s"] mod verif_witness;\n' % HARNESS)
    outp = os.path.join(work, 'witness_out.json')
    if os.path.exists(outp):
        os.remove(outp)
    env = dict(os.environ, VERIF_WITNESS_MODE=mode, VERIF_WITNESS_OUT=outp, CARGO_NET_OFFLINE='true',
               VERIF_WITNESS_DEPTH=('thorough' if DEPTH[0] == 'thorough' else 'quick'),
               CARGO_TARGET_DIR=os.path.join(scratch, 'target'))
    try:
        p = subprocess.run(['cargo', 'test', '--offline', '--lib', 'verif_witness', '--', '--nocapture', '--test-threads', '1'],
                           cwd=scratch, env=env, capture_output=True, text=True, timeout=timeout)
    except subprocess.TimeoutExpired:
        return dict(found=False, note='witness harness timed out')
    if not os.path.exists(outp):
        tail = (p.stdout + p.stderr)[-600:]
        return dict(found=False, note='witness harness did not run (does not compile against this tree, or panicked): ' + tail)
    try:
        return json.load(open(outp))
    except Exception as e:
        return dict(found=False, note='unreadable witness output: %s' % e)


DEPTH = ['quick']
THOROUGH_BOUNDS = ' | thorough tier adds: pipeline 3 middlewares x 4000 sampled verdict/removal assignments per chain (seeded by VERIF_SEED); channel capacities 1..6; builder all sequences <= 3; selector length <= 8'
TIMED = ('loop', 'subs', 'block', 'channeled', 'iter', 'latereg', 'twostores', 'balance')


def search(prop, failure, repo, work, seed):
    suites = SUITES.get(prop, [])
    if not suites:
        return dict(found=False, note='no witness suite covers this property', bounds=BOUNDS)
    # one suite at a time: a hit of a suite that uses real threads must reproduce (3 out of 3) before it is reported;
    # a hit that does not reproduce is discarded as timing noise and the search goes on with the next suite
    r = dict(found=False)
    notes = []
    for su in suites:
        r1 = _run(repo, 'search:' + su, work)
        if r1.get('found') and r1.get('suite') in TIMED and r1.get('case'):
            cf = os.path.join(work, 'witness_case.txt')
            open(cf, 'w').write(r1['case'])
            again = [_run(repo, 'replay:' + cf, work) for _ in range(2)]
            if not all(a.get('found') for a in again):
                notes.append('a hit of suite %s (%s) did not reproduce: discarded as timing noise' % (r1.get('suite'), r1.get('case')))
                continue
        if r1.get('found'):
            r = r1
            break
        if r1.get('note'):
            notes.append(r1['note'][:300])
    if not r.get('found') and notes:
        r['note'] = ' | '.join(notes)[:900]
    r['suites'] = suites
    r['bounds'] = BOUNDS + (THOROUGH_BOUNDS if DEPTH[0] == 'thorough' else '')
    return r


def replay(path, repo):
    d = json.load(open(path))
    w = d.get('witness') or {}
    case = w.get('case')
    suite = w.get('suite')
    print('replay of %s: obligation %s in %s' % (path, d.get('obligation'), d.get('function')))
    if not (w.get('found') and case and suite):
        print('the verifier gave no failing input for this obligation (no-failing-input-found); verifier output:')
        print(d.get('verifier_output', '')[:3000])
        return 1
    work = tempfile.mkdtemp(prefix='verif_replay_')
    try:
        cf = os.path.join(work, 'case.txt')
        text = case if case.split()[0] in ('pipeline', 'loop', 'channel', 'builder', 'selector', 'subs', 'block', 'twostores', 'channeled', 'iter', 'latereg', 'balance') else suite
        open(cf, 'w').write(text)
        r = _run(repo, 'replay:' + cf, work)
        if r.get('found'):
            print('REPRODUCED on %s: case %r' % (repo, case))
            print('  expected: %s' % r.get('expected'))
            print('  observed: %s' % r.get('observed'))
            return 1
        print('not reproduced on %s: %s' % (repo, r.get('note', 'the real code agrees with the reference semantics for this case')))
        return 0
    finally:
        shutil.rmtree(work, ignore_errors=True)
