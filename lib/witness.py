"""witness search / replay on the real code (placeholder, replaced below)"""


def search(prop, failure, repo, work, seed):
    return dict(found=False, note='no witness harness for this obligation')


def replay(path, repo):
    print('no replay harness for', path)
    return 2
