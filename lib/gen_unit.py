#!/usr/bin/env python3
import sys, os
sys.path.insert(0, os.path.dirname(os.path.abspath(__file__)))
import vx
u = vx.Unit(sys.argv[1], sys.argv[2] if len(sys.argv) > 2 else '/repo/src')
g = u.generate(canary='--canary' in sys.argv)
out = sys.argv[3] if len(sys.argv) > 3 else '/dev/stdout'
open(out, 'w').write(g.text())
print('fns', [f.key for f in g.fns], 'clauses', len(g.clauses), 'rewrites', len(g.rewrite_log), file=sys.stderr)
