"""which units / harnesses decide which property"""
UNITS = ['store']

A_COMMON = [
    'A1 std::sync::Mutex: mutual exclusion, release->acquire happens-before, lock() returns Ok (no panic while a store lock is held)',
    'A3 Clone returns an equal value; PartialEq on Output is an equivalence',
    'A6 user callbacks answer as a function of their arguments and return; they do not change the store cells synchronously',
]
A_CHAN = ['A2 crossbeam bounded(cap): linearizable FIFO with |q| <= cap; send/try_send/try_recv/len/recv as in contracts/channel.inc']
A_POOL = ['A4 rusty_pool: execute(f) runs f exactly once on a worker; shutdown_join* waits for submitted work (or its timeout)']
A_THREAD = ['A5 thread::Builder::spawn runs the closure once on a new thread; JoinHandle::join returns after it finished']

PROPS = {
    'C01': dict(units=['store'], assumptions=A_COMMON + A_CHAN),
    'C02': dict(units=['store'], kani=['lock'], assumptions=A_COMMON + A_CHAN),
    'C03': dict(units=['store'], assumptions=A_COMMON),
    'C04': dict(units=['store'], kani=['lock'], assumptions=A_COMMON + A_CHAN + A_POOL),
    'C05': dict(units=['store'], assumptions=A_COMMON + A_CHAN),
    'C06': dict(units=['store'], assumptions=A_COMMON + A_CHAN),
    'C07': dict(units=['store'], assumptions=A_COMMON + A_POOL),
    'C08': dict(units=['store'], assumptions=A_COMMON),
    'C09': dict(units=['store'], kani=['unsubscribe'], assumptions=A_COMMON + A_THREAD),
    'C10': dict(units=['store'], assumptions=A_COMMON + A_CHAN + A_THREAD),
    'C11': dict(units=['store'], assumptions=A_COMMON + A_POOL),
    'C12': dict(units=['store'], assumptions=A_COMMON),
    'C14': dict(units=['store'], assumptions=A_COMMON + A_CHAN),
    'C15': dict(units=['store'], assumptions=A_COMMON + A_POOL),
    'C16': dict(units=['store'], kani=['selector'], assumptions=A_COMMON),
    'C17': dict(units=['store'], assumptions=A_COMMON),
    'C18': dict(units=['store'], kani=['metrics'], assumptions=A_COMMON + A_CHAN),
    'C19': dict(units=['store'], assumptions=A_COMMON),
}
for _p in PROPS.values():
    _p.setdefault('kani', [])
