"""which units / harnesses decide which property"""
UNITS = ['store']

A_COMMON = [
    'A1 std::sync::Mutex: mutual exclusion, release->acquire happens-before, lock() returns Ok (no panic while a store lock is held)',
    'A3 Clone returns an equal value; PartialEq on Output is an equivalence',
    'A6 user callbacks answer as a function of their arguments and return; they do not change the store cells synchronously',
]
A_CHAN = ['A2 crossbeam bounded(cap): linearizable FIFO with |q| <= cap; send/try_send/try_recv/len/recv as in contracts/channel.inc']
A_CHAN = A_CHAN + ['A2b Exit-last protocol (rely of the consumer loops, recv_exit_last): the Exit marker is the last item a dispatch or subscription queue carries; producer side proved for close()']
A_LIFE = ['A10 Drop for StoreImpl runs only on a closed store (precondition of that contract: the reducer job owns a handle until its loop has ended)',
          'A11 pool slot empty => sender slot empty (precondition of Drop for DroppableStore; only stop()/the last drop empty the pool slot, after close())']
A_POOL = ['A4 rusty_pool: execute(f) runs f exactly once on a worker; shutdown_join* waits for submitted work (or its timeout)']
A_THREAD = ['A5 thread::Builder::spawn runs the closure once on a new thread; JoinHandle::join returns after it finished']

PROPS = {
    'C01': dict(units=['store'], assumptions=A_COMMON + A_CHAN),
    'C02': dict(units=['store'], kani=['lock'], assumptions=A_COMMON + A_CHAN),
    'C03': dict(units=['store'], assumptions=A_COMMON),
    'C04': dict(units=['store'], kani=['lock'], assumptions=A_COMMON + A_CHAN + A_POOL + A_LIFE),
    'C05': dict(units=['store'], kani=['lock'], assumptions=A_COMMON + A_CHAN),
    'C06': dict(units=['store'], kani=['lock'], assumptions=A_COMMON + A_CHAN),
    'C07': dict(units=['store'], assumptions=A_COMMON + A_POOL),
    'C08': dict(units=['store'], assumptions=A_COMMON),
    'C09': dict(units=['store'], kani=['unsubscribe'], assumptions=A_COMMON + A_THREAD),
    'C10': dict(units=['store'], assumptions=A_COMMON + A_CHAN + A_THREAD),
    'C11': dict(units=['store'], assumptions=A_COMMON + A_POOL),
    'C12': dict(units=['store'], assumptions=A_COMMON),
    'C14': dict(units=['store'], assumptions=A_COMMON + A_CHAN),
    'C15': dict(units=['store'], kani=['lock'], assumptions=A_COMMON + A_CHAN + A_POOL + A_LIFE),
    'C16': dict(units=['store'], kani=['selector'], assumptions=A_COMMON),
    'C17': dict(units=['store'], assumptions=A_COMMON),
    'C18': dict(units=['store'], kani=['metrics', 'lock'], assumptions=A_COMMON + A_CHAN),
    'C19': dict(units=['store'], assumptions=A_COMMON),
}
PROPS['C15']['also'] = ['C04']   # dropping a DroppableStore IS stop(): every obligation of C04 is an obligation of C15
for _p in PROPS.values():
    _p.setdefault('kani', [])
    _p.setdefault('also', [])

_V = 'Verus proof of contracts on the extracted real functions'
TEXT = {
 'C01': dict(engine='verus', ref='4-C01', technique='Verus: fold postcondition of do_reduce + loop invariant state == run_state(received ops)',
   level='unbounded proof (all chains, all action sequences, all verdict assignments) that do_reduce returns the left fold of the reducer chain, each reducer called exactly once with the previous state, and that the reducer loop writes back exactly that result so that the state cell equals the sequential fold of the received operations; get_state returns the cell',
   note='which sequence is received under concurrency rests on the assumed contracts of Mutex and the crossbeam channel (A1, A2) and on C02/C05; callbacks are uninterpreted functions of their arguments (A6); Clone returns an equal value (A3)'),
 'C02': dict(engine='verus+kani', ref='4-C02', technique='Verus: one hand-over per dispatch, FIFO/head-only removal in send; Kani (loop-free, complete): the hand-over happens while the dispatch lock is held',
   level='proof of the mechanism: every dispatch entry point hands exactly its action to the channel exactly once (Verus), does so inside the critical section of the dispatch_tx mutex (Kani on the real code with the send replaced by a checker of its precondition), and SenderChannel::send only appends at the tail and removes at the head (Verus)',
   note='lifting to real-time order over all schedules assumes Mutex mutual exclusion and the linearizable FIFO contract of crossbeam (A1, A2); the dyn Dispatcher seen by thunks/middleware is linked to the verified impl by construction of the extractor (R11)'),
 'C03': dict(engine='verus', ref='4-C03', technique='Verus: trace postcondition of do_notify (loop invariant over the snapshot) + loop invariant of the reducer loop',
   level='unbounded proof that do_notify calls every subscriber of the snapshot exactly once, in registration order, with exactly (new state, action), that it is called iff the chain asks for it (pinned for unanimous chains), and with the very state that was just stored',
   note='subscriber list taken as the cell content at snapshot time (sequential model; interference on the list is the subject of C09); A1, A6'),
 'C04': dict(engine='verus+kani', ref='4-C04', technique='Verus: close/stop/dispatch/loop-exit contracts over cell and channel ghost state; Kani: Exit is enqueued under the dispatch lock',
   level='proof that close empties the sender slot and hands over exactly one Exit (under the lock: Kani), that a closed store rejects dispatch through every entry point without handing anything over, that second close/stop do nothing, that the loop processes nothing after Exit and then releases every subscriber once, and that nothing is spawned once the pool slot is empty',
   note='that shutdown_join* really waits for the running loop and queued jobs is the assumed contract of rusty_pool (A4); timing is not decided'),
 'C05': dict(engine='verus+kani', ref='4-C05', technique='Verus: BlockOnFull arm of SenderChannel::send against the bounded-FIFO ghost channel; capacity >= 1 precondition chain build -> new_with -> pair_with; Kani: every hand-over (actions and the Exit marker) happens under the dispatch lock, so no accepted action can end up behind Exit',
   level='proof of the safety half: the blocking policy appends the item with at most one call that may wait and never removes, refuses or counts anything; the queue never exceeds the configured capacity (wf invariant); the channel is created with exactly the configured non-zero capacity',
   note='"the caller resumes", "eventually reduced" are liveness and are not decided; A2'),
 'C06': dict(engine='verus', ref='4-C06', technique='Verus: SenderChannel::send against a ghost queue with consumer interference (rely/guarantee), exact transformer when the consumer is stalled',
   level='unbounded proof (all capacities, all queue contents, every interleaving of consumer steps between the crossbeam calls) that drop policies never issue a call that may wait, DropOldest always admits the new item and discards at most one item from the head, DropLatest refuses only the new item, every discarded action is counted exactly once, and Dispatcher::dispatch returns Err exactly when the action was not admitted',
   note='single producer at a time (C02 lock obligations); crossbeam try_send/try_recv/len contracts assumed (A2)'),
 'C07': dict(engine='verus', ref='4-C07', technique='Verus: event-trace postconditions of do_reduce/do_effect/do_notify and the loop invariant trace == concatenation of per-action blocks',
   level='unbounded proof that the trace of the reducer context is the concatenation, in receive order, of per-action blocks with the documented phase order, every callback a direct call of the loop, effects only handed to the dispatcher; registration appends to the very lists the pipeline iterates; exactly one loop per store',
   note='thread identity is a call-structure fact (A4/A5 for what execute/spawn do); A1 for visibility of registrations'),
 'C08': dict(engine='verus', ref='4-C08', technique='Verus: frame clauses (only the loop writes the state cell) + precondition of do_notify: the state cell already holds the state being announced',
   level='proof that the only writer of the state cell is the reducer loop, that it writes exactly the chain result once per action before any notification of that action, and that get_state returns the cell content',
   note='monotonic reads across threads assume Mutex linearizability (A1)'),
 'C09': dict(engine='verus+kani', ref='4-C09', technique='Verus: clear_subscribers loop invariant, lifted unsubscribe closure and retain predicate over the assumed Vec::retain contract, idempotence lemma; Kani (bounded, 1 subscriber): cross-check of the retain contract, release and notification inside critical sections of the subscribers mutex',
   level='unbounded proof that shutdown releases every registered subscriber exactly once and empties the list, that registration appends, and that unsubscribe removes exactly the target (others stay, in order), releases it once and is idempotent; 1-subscriber Kani harnesses cross-check the assumed Vec::retain contract on the real code and decide that unsubscribe()/shutdown release and on_notify run under the subscribers lock (bounded, not counted)',
   note='Vec::retain is used through its documented contract (assumed); known finding F-C09-1: a notification in flight when unsubscribe() returns still reaches the subscriber (Kani O-C09-k-notify-under-lock; DESIGN.md section 5)'),
 'C10': dict(engine='verus', ref='4-C10', technique='Verus: forwarding wrapper, delivery loop invariant, release order, per-subscription channel',
   level='proof that the forwarding wrapper hands exactly one clone per notification to its own channel and can call no user callback, that the delivery loop calls the user subscriber once per received item in order and stops at Exit, that release drops the sender before joining, once; channel created with the caller capacity/policy',
   note='own thread: A5; channel behaviour: C05/C06 obligations on the same send function'),
 'C11': dict(engine='verus', ref='4-C11', technique='Verus: do_effect loop invariant (spawn trace), lifted closures, dispatch_thunk/dispatch_task against the pool cell',
   level='proof that do_effect hands every effect left by the middlewares to the dispatcher exactly once in order and runs none inline, that Effect::Action is a thunk performing one dispatch, that dispatch_thunk/dispatch_task submit exactly one job (with a dispatcher of the same store) iff the pool is present; known finding F-C11-1 on stop()',
   note='that the pool runs each job once on a worker and contains panics is A4; R8 links closure constructors to the lifted bodies'),
 'C12': dict(engine='verus', ref='4-C12', technique='Verus: three hook loops with invariant_except_break + loop ensures against recursive reference traces',
   level='unbounded proof (any number of middlewares, any verdict function) of hook arguments, DoneAction/BreakChain/ContinueAction/Err semantics in all three phases, on_error exactly once per Err, and that the effects left by before_effect are exactly the ones spawned',
   note='vetoed actions: notification left unspecified as in the statement; A6'),
 'C14': dict(engine='verus', ref='4-C14', technique='Verus: next()/drop() of the real StateIterator over channel and subscription ghost state; iter_with wiring',
   level='proof that next yields a received pair unchanged, ends (release once, drop receiver, None forever) on Exit/disconnect, that the subscriber forwards one clone per notification and one Exit on release, iter() uses capacity 1; known finding F-C14-1 on Drop',
   note='stream equality with a direct subscriber rests on C03 + C05 (lossless blocking channel); A2'),
 'C15': dict(engine='verus', ref='4-C15', technique='Verus: Drop for DroppableStore against the contract of stop()',
   level='proof that dropping the wrapper performs exactly the effects of stop() on the inner handle, unconditionally, and that deref hands out the same handle',
   note='everything else is C04'),
 'C16': dict(engine='verus+kani', ref='4-C16', technique='Verus: step contract of on_notify + inductive lemma dedup; Kani (loop-free): the same step on the real Mutex',
   level='unbounded proof: on_notify implements compare-then-deliver-then-store exactly, and folding that step over any notification sequence delivers the selected values with consecutive duplicates removed, each with its action, the first always',
   note='PartialEq on Output assumed to be the equality of the statement (A3)'),
 'C17': dict(engine='verus', ref='4-C17', technique='Verus: whole-record postconditions of every setter, iff-postcondition of build, commutation lemmas',
   level='unbounded proof that every setter changes exactly its option, build fails exactly in the three stated cases and otherwise passes exactly the recorded settings to new_with, which stores them; commutation/last-wins lemmas over the record; genuine defect repaired by a fix: commit',
   note='String contents are vstd views; format! results uninterpreted'),
 'C18': dict(engine='verus+kani', ref='4-C18', technique='Kani (loop-free, complete): every CountMetrics method adds the stated amount to exactly one counter; Verus: additive ghost counters at the call sites, loop invariant m == run_counts(received ops)',
   level='proof that each metrics method changes exactly its event counter by the stated amount (real metrics.rs) and that the call sites emit one received per recv, one reduced iff not vetoed, effect_issued with the number of effects returned, one middleware_executed per phase with the number of hooks run, one error per rejected StoreImpl::dispatch, one action_dropped per discarded action',
   note='balance over a whole run is the sum of the per-action blocks (C07 trace) plus C06 conservation; atomics assumed below usize::MAX'),
 'C19': dict(engine='verus', ref='4-C19', technique='Verus: freshness postcondition of new_with (Alloc events) and frame clauses; syntactic scan for process-wide state',
   level='proof of the frame half: new_with allocates every mutable component itself and every contracted function changes only the ghost cells of the store it is called on',
   note='interference through dependency internals or caller-shared objects is not decided; the two-store schedule quantifier is a hyper-property'),
}
