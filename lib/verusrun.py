"""Run Verus on a generated unit and map its diagnostics back to named obligations."""
import json
import os
import re
import subprocess
import time

VERUS = 'verus'

FAIL_PATTERNS = [
    'postcondition not satisfied',
    'precondition not satisfied',
    'invariant not satisfied',
    'loop invariant not satisfied',
    'assertion failed',
    'possible arithmetic underflow/overflow',
    'possible division by zero',
    'decreases not satisfied',
    'could not prove termination',
    'recommendation not met',
    'unreachable',
]

UNDECIDED_PATTERNS = [
    'Resource limit (rlimit) exceeded',
    'rlimit',
    'while loop: Resource limit',
    'function body check: Resource limit',
]


class VerusResult:
    def __init__(self):
        self.ok = False
        self.failures = []  # dict(message, clause, fn, gen_line, kind, rendered)
        self.undecided = []  # strings (reasons)
        self.soft = []       # panic-freedom failures outside named clauses: undecided for the properties of that function only
        self.verified = 0
        self.errors = 0
        self.wall_s = 0.0
        self.smt_ms = None
        self.times = {}
        self.cmd = ''
        self.raw_stderr = ''
        self.func_times = {}
        self.rejected_fns = {}  # fn key -> message: non-verification errors located inside an extracted function


def run_verus(gen, out_path, seed=0, rlimit=None, extra=None, timeout=900):
    """gen: vx.Generated; writes gen text to out_path, runs verus, returns VerusResult"""
    with open(out_path, 'w', encoding='utf-8') as f:
        f.write(gen.text())
    cmd = [VERUS, os.path.basename(out_path), '--multiple-errors', '30', '--no-erasure-check', '--no-trait-conflicts',
           '--triggers-mode', 'silent', '--error-format=json', '--output-json', '--time', '--num-threads', '8']
    if seed:
        cmd += ['--smt-option', 'smt.random_seed=%d' % (seed % 100000)]
    if rlimit:
        cmd += ['--rlimit', str(rlimit)]
    if extra:
        cmd += extra
    res = VerusResult()
    res.cmd = ' '.join(cmd)
    t0 = time.time()
    try:
        p = subprocess.run(cmd, cwd=os.path.dirname(out_path), capture_output=True, text=True, timeout=timeout)
    except subprocess.TimeoutExpired:
        res.undecided.append('verus timed out after %ds' % timeout)
        res.wall_s = time.time() - t0
        return res
    res.wall_s = time.time() - t0
    res.raw_stderr = p.stderr
    # stdout: json summary
    try:
        js = json.loads(p.stdout)
        vr = js.get('verification-results', {})
        res.verified = vr.get('verified', 0)
        res.errors = vr.get('errors', 0)
        tm = js.get('times-ms', {})
        res.smt_ms = tm.get('smt', {}).get('smt-run')
        res.times = dict(total_ms=tm.get('total'), smt_run_ms=tm.get('smt', {}).get('smt-run'),
                         verify_ms=tm.get('total-verify'), rust_ms=tm.get('rust', {}).get('total'))
        encountered_vir_error = vr.get('encountered-vir-error', False)
    except Exception:
        js = None
        encountered_vir_error = True
    diags = []
    for ln in p.stderr.split('\n'):
        ln = ln.strip()
        if ln.startswith('{'):
            try:
                diags.append(json.loads(ln))
            except Exception:
                pass
    for d in diags:
        lvl = d.get('level')
        msg = d.get('message', '')
        if lvl == 'error':
            if msg.startswith('aborting due to'):
                continue
            if any(u in msg for u in UNDECIDED_PATTERNS):
                res.undecided.append('verus: ' + msg)
                continue
            if any(msg.startswith(fp) or fp in msg for fp in FAIL_PATTERNS):
                f = map_failure(gen, d)
                if f['clause'] is None and is_panic_freedom_only(d, os.path.basename(out_path)):
                    # overflow, division by zero, or a precondition of a std/vstd function (unwrap, indexing ..):
                    # panic-freedom of changed code is not one of the properties -> undecided for the properties of that function
                    f['reason'] = 'verus could not show panic-freedom (not a listed property) in %s: %s%s' % (f['fn'], msg, span_str(d))
                    res.soft.append(f)
                else:
                    res.failures.append(f)
            else:
                # type error, unsupported construct, name resolution, mode error...
                res.undecided.append('verus rejected the unit (not a verification failure): %s%s' % (msg, span_str(d)))
                for sp in d.get('spans', []):
                    if sp.get('is_primary'):
                        f = gen.fn_at(sp.get('line_start', 0))
                        if f is not None:
                            res.rejected_fns[f.key] = msg[:200]
        elif lvl == 'note' and 'Resource limit' in msg:
            res.undecided.append('verus: ' + msg)
    if js is None and not res.undecided:
        res.undecided.append('verus produced no JSON summary (exit %d): %s' % (p.returncode, p.stderr[-400:]))
    if js is not None and encountered_vir_error and not res.undecided and not res.failures:
        res.undecided.append('verus reported a VIR error')
    if p.returncode != 0 and not res.failures and not res.undecided:
        res.undecided.append('verus exit %d without diagnostics: %s' % (p.returncode, p.stderr[-400:]))
    res.ok = (p.returncode == 0 and not res.failures and not res.undecided and res.errors == 0)
    return res


def is_panic_freedom_only(d, unit_file):
    msg = d.get('message', '')
    if 'arithmetic underflow/overflow' in msg or 'division by zero' in msg:
        return True
    if msg.startswith('precondition not satisfied'):
        for sp in d.get('spans', []):
            if 'failed precondition' in (sp.get('label') or '') and os.path.basename(sp.get('file_name', '')) != unit_file:
                return True
    return False


def span_str(d):
    for s in d.get('spans', []):
        if s.get('is_primary'):
            return ' at gen:%d' % s.get('line_start', 0)
    return ''


def map_failure(gen, d):
    msg = d.get('message', '')
    spans = d.get('spans', [])
    clause = None
    primary_line = None
    for s in spans:
        if s.get('is_primary'):
            primary_line = s.get('line_start')
    # the obligation: the clause under the primary span, else under a span labelled "failed ..."
    def clause_of(s):
        for ln in range(s.get('line_start', 0), s.get('line_end', 0) + 1):
            c = gen.clause_at(ln)
            if c is not None:
                return c
        return None
    for s in spans:
        if s.get('is_primary'):
            clause = clause_of(s)
    if clause is None:
        for s in spans:
            if not s.get('is_primary') and 'failed' in (s.get('label') or ''):
                clause = clause_of(s)
                if clause:
                    break
    # the function in which the failure is reported: the span that is NOT the clause if possible
    fn = None
    for s in spans:
        f = gen.fn_at(s.get('line_start', 0))
        if f is not None:
            c = gen.clause_at(s.get('line_start', 0))
            if c is None or c is not clause or fn is None:
                fn = f
                if c is None:
                    break
    if fn is None and primary_line is not None:
        fn = gen.fn_at(primary_line)
    return dict(message=msg, clause=clause.id if clause else None,
                clause_kind=clause.kind if clause else None,
                clause_props=clause.props if clause else None,
                clause_fn=clause.fn if clause else None,
                fn=fn.key if fn else None, fn_props=fn.props if fn else None,
                gen_line=primary_line, rendered=d.get('rendered', '')[:1500])
