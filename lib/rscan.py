"""Minimal Rust lexical scanner: enough to match braces/parens outside of
strings, chars, comments and lifetimes, and to locate items by name.
stdlib only."""
import re


class ScanError(Exception):
    pass


def code_mask(text):
    """mask[i] == True iff text[i] is code (not inside comment / string / char literal)."""
    n = len(text)
    mask = [True] * n
    i = 0
    while i < n:
        c = text[i]
        if c == '/' and i + 1 < n and text[i + 1] == '/':
            j = text.find('\n', i)
            if j < 0:
                j = n
            for k in range(i, j):
                mask[k] = False
            i = j
        elif c == '/' and i + 1 < n and text[i + 1] == '*':
            depth = 1
            j = i + 2
            while j < n and depth > 0:
                if text.startswith('/*', j):
                    depth += 1
                    j += 2
                elif text.startswith('*/', j):
                    depth -= 1
                    j += 2
                else:
                    j += 1
            for k in range(i, j):
                mask[k] = False
            i = j
        elif c == '"':
            j = i + 1
            while j < n and text[j] != '"':
                if text[j] == '\\':
                    j += 1
                j += 1
            j = min(j + 1, n)
            for k in range(i, j):
                mask[k] = False
            i = j
        elif c == 'r' and re.match(r'r#*"', text[i:i + 8]) and (i == 0 or not (text[i - 1].isalnum() or text[i - 1] == '_')):
            m = re.match(r'r(#*)"', text[i:])
            hashes = m.group(1)
            end = text.find('"' + hashes, i + len(m.group(0)))
            j = n if end < 0 else end + 1 + len(hashes)
            for k in range(i, j):
                mask[k] = False
            i = j
        elif c == "'":
            # char literal or lifetime
            m = re.match(r"'(\\.[^']*|[^\\'])'", text[i:i + 12])
            if m:
                j = i + len(m.group(0))
                for k in range(i, j):
                    mask[k] = False
                i = j
            else:
                i += 1  # lifetime
        else:
            i += 1
    return mask


OPEN = {'{': '}', '(': ')', '[': ']'}


def match_close(text, mask, i):
    """text[i] is an opening bracket at a code position; return index of its partner."""
    o = text[i]
    c = OPEN[o]
    depth = 0
    n = len(text)
    j = i
    while j < n:
        if mask[j]:
            if text[j] == o:
                depth += 1
            elif text[j] == c:
                depth -= 1
                if depth == 0:
                    return j
        j += 1
    raise ScanError('unbalanced %r at %d' % (o, i))


def find_code(text, mask, pat, start=0, end=None):
    """iterate regex matches whose first char is at a code position"""
    end = len(text) if end is None else end
    for m in re.finditer(pat, text):
        if m.start() < start or m.start() >= end:
            continue
        if mask[m.start()]:
            yield m


def line_of(text, pos):
    return text.count('\n', 0, pos) + 1


def find_container(text, mask, header_re):
    """find `impl ... {` / `trait ... {` whose header matches header_re; returns (hdr_start, body_open, body_close)."""
    res = []
    for m in find_code(text, mask, r'(?m)^(?:pub(?:\([a-z]+\))?\s+)?(?:impl|trait|struct|enum)\b'):
        # header extends to first '{' at code position (or ';')
        j = m.start()
        while j < len(text) and not (mask[j] and text[j] in '{;'):
            j += 1
        if j >= len(text) or text[j] == ';':
            continue
        header = ' '.join(text[m.start():j].split())
        if re.search(header_re, header):
            res.append((m.start(), j, match_close(text, mask, j)))
    return res


def find_fn(text, mask, name, lo=0, hi=None):
    """find `fn name` items in [lo,hi); returns list of dicts with spans."""
    hi = len(text) if hi is None else hi
    out = []
    for m in find_code(text, mask, r'\bfn\s+' + re.escape(name) + r'\b', lo, hi):
        # item start: back up over visibility qualifiers on the same line
        ls = text.rfind('\n', 0, m.start()) + 1
        prefix = text[ls:m.start()]
        if prefix.strip() not in ('', 'pub', 'pub(crate)', 'pub(super)'):
            continue
        start = ls + (len(prefix) - len(prefix.lstrip()))
        # generics / params
        j = m.end()
        while text[j] != '(' or not mask[j]:
            if text[j] == '<' and mask[j]:
                # skip generic list (angle matching, naive but adequate: no '>' in bounds exprs)
                depth = 0
                while True:
                    if mask[j] and text[j] == '<':
                        depth += 1
                    elif mask[j] and text[j] == '>' and text[j - 1] != '-':
                        depth -= 1
                        if depth == 0:
                            break
                    j += 1
            j += 1
        popen = j
        pclose = match_close(text, mask, popen)
        # body open: first '{' or ';' at code position after params, at bracket depth 0
        j = pclose + 1
        while j < len(text) and not (mask[j] and text[j] in '{;'):
            if mask[j] and text[j] in '([':
                j = match_close(text, mask, j)
            j += 1
        if text[j] == ';':
            out.append(dict(start=start, fn_kw=m.start(), name_end=m.end(), popen=popen, pclose=pclose,
                            bopen=None, bclose=j, end=j + 1))
        else:
            bclose = match_close(text, mask, j)
            out.append(dict(start=start, fn_kw=m.start(), name_end=m.end(), popen=popen, pclose=pclose,
                            bopen=j, bclose=bclose, end=bclose + 1))
    return out
