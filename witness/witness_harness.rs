// Witness search / replay on the REAL code.  This file is attached to a scratch copy of the working
// tree as `#[cfg(test)] #[path] mod verif_witness;` at the end of src/store_impl.rs, so it can call the
// crate-private pipeline functions.  It is an executable rendering of the contract clauses of
// /verif/contracts: small configurations are enumerated exhaustively and the observed behaviour of the
// real functions is compared with the reference semantics written from the property statements.
// It never decides a property: it only produces concrete failing inputs (bounded cross-check).
//
//   VERIF_WITNESS_MODE = search:<suite>[,<suite>..] | replay:<case json file>
//   VERIF_WITNESS_OUT  = file receiving one JSON object (found / not found, case, expected, observed)
#![allow(dead_code)]
use super::*;
use crate::builder::StoreBuilder;
use crate::dispatcher::Dispatcher;
use crate::store::StoreError;
use crate::store_droppable::DroppableStore;
use std::sync::atomic::{AtomicUsize, Ordering};
use std::sync::{Arc, Mutex};
use std::time::{Duration, Instant};

type St = i64;
type Ac = i64;

#[derive(Clone, Debug, PartialEq)]
enum Ev {
    BR(usize, Ac, St),
    BE(usize, Ac, St, usize),
    BD(usize, Ac, St),
    OnErr(usize),
    Reduce(usize, St, Ac),
    Notify(usize, St, Ac),
    Unsub(usize),
    Thunk,
    Task,
}
type Log = Arc<Mutex<Vec<Ev>>>;

fn mix(s: St, a: Ac, r: usize) -> St {
    (s.wrapping_mul(31) + a * 7 + (r as i64) + 1) % 1_000_003
}

// ---------------------------------------------------------------- scripted callbacks
#[derive(Clone, Copy, Debug, PartialEq)]
enum V {
    Continue,
    Done,
    Break,
    Err,
}
const VS: [V; 4] = [V::Continue, V::Done, V::Break, V::Err];
fn vname(v: V) -> &'static str {
    match v {
        V::Continue => "Continue",
        V::Done => "Done",
        V::Break => "Break",
        V::Err => "Err",
    }
}

struct Mw {
    id: usize,
    verdicts: Arc<Mutex<Vec<[V; 3]>>>, // per middleware: before_reduce, before_effect, before_dispatch
    remove_effect: Arc<Mutex<Vec<bool>>>,
    log: Log,
}
impl Mw {
    fn answer(&self, hook: usize) -> Result<MiddlewareOp, StoreError> {
        match self.verdicts.lock().unwrap()[self.id][hook] {
            V::Continue => Ok(MiddlewareOp::ContinueAction),
            V::Done => Ok(MiddlewareOp::DoneAction),
            V::Break => Ok(MiddlewareOp::BreakChain),
            V::Err => Err(StoreError::MiddlewareError("scripted".to_string())),
        }
    }
}
impl Middleware<St, Ac> for Mw {
    fn before_reduce(&self, action: &Ac, state: &St, _d: Arc<dyn Dispatcher<Ac>>) -> Result<MiddlewareOp, StoreError> {
        self.log.lock().unwrap().push(Ev::BR(self.id, *action, *state));
        self.answer(0)
    }
    fn before_effect(&self, action: &Ac, state: &St, effects: &mut Vec<Effect<Ac>>, _d: Arc<dyn Dispatcher<Ac>>) -> Result<MiddlewareOp, StoreError> {
        self.log.lock().unwrap().push(Ev::BE(self.id, *action, *state, effects.len()));
        if self.remove_effect.lock().unwrap()[self.id] && !effects.is_empty() {
            effects.remove(0);
        }
        self.answer(1)
    }
    fn before_dispatch(&self, action: &Ac, state: &St, _d: Arc<dyn Dispatcher<Ac>>) -> Result<MiddlewareOp, StoreError> {
        self.log.lock().unwrap().push(Ev::BD(self.id, *action, *state));
        self.answer(2)
    }
    fn on_error(&self, _e: StoreError) {
        self.log.lock().unwrap().push(Ev::OnErr(self.id));
    }
}

#[derive(Clone, Copy, Debug, PartialEq)]
struct RCfg {
    dispatch: bool,
    effect: u8, // 0 none, 1 task, 2 thunk, 3 function, 4 action
}
struct Rd {
    id: usize,
    cfg: RCfg,
    log: Log,
}
impl Reducer<St, Ac> for Rd {
    fn reduce(&self, state: &St, action: &Ac) -> DispatchOp<St, Ac> {
        self.log.lock().unwrap().push(Ev::Reduce(self.id, *state, *action));
        let ns = mix(*state, *action, self.id);
        let eff = match self.cfg.effect {
            1 => Some(Effect::Task(Box::new(|| {}))),
            2 => Some(Effect::Thunk(Box::new(|_d| {}))),
            3 => Some(Effect::Function("f".to_string(), Box::new(|| Ok(Box::new(0u8) as Box<dyn std::any::Any + Send>)))),
            4 => Some(Effect::Action(*action + 1000)),
            _ => None,
        };
        if self.cfg.dispatch {
            DispatchOp::Dispatch(ns, eff)
        } else {
            DispatchOp::Keep(ns, eff)
        }
    }
}
struct Sb {
    id: usize,
    log: Log,
}
impl Subscriber<St, Ac> for Sb {
    fn on_notify(&self, state: &St, action: &Ac) {
        self.log.lock().unwrap().push(Ev::Notify(self.id, *state, *action));
    }
    fn on_unsubscribe(&self) {
        self.log.lock().unwrap().push(Ev::Unsub(self.id));
    }
}
// a dispatcher that only records what is handed to it (no pool): do_effect must hand over, never run
struct RecDispatcher {
    log: Log,
}
impl Dispatcher<Ac> for RecDispatcher {
    fn dispatch(&self, _a: Ac) -> Result<(), StoreError> {
        Ok(())
    }
    fn dispatch_thunk(&self, _t: Box<dyn FnOnce(Box<dyn Dispatcher<Ac>>) + Send>) {
        self.log.lock().unwrap().push(Ev::Thunk);
    }
    fn dispatch_task(&self, _t: Box<dyn FnOnce() + Send>) {
        self.log.lock().unwrap().push(Ev::Task);
    }
}

// ---------------------------------------------------------------- reference semantics (from the statements)
struct Model {
    n_mw: usize,
    verdicts: Vec<[V; 3]>,
    remove: Vec<bool>,
    reducers: Vec<RCfg>,
    n_subs: usize,
}
impl Model {
    fn hooks(&self, hook: usize, mk: &dyn Fn(usize) -> Ev, on_effects: &mut dyn FnMut(usize)) -> (Vec<Ev>, bool, usize) {
        // returns (events, some DoneAction reached before a BreakChain, number of hooks run)
        let mut ev = vec![];
        let mut done = false;
        let mut n = 0;
        for i in 0..self.n_mw {
            ev.push(mk(i));
            n += 1;
            on_effects(i);
            match self.verdicts[i][hook] {
                V::Continue => {}
                V::Done => done = true,
                V::Break => break,
                V::Err => ev.push(Ev::OnErr(i)),
            }
        }
        (ev, done, n)
    }
    fn reduce(&self, s: St, a: Ac) -> (Vec<Ev>, bool, St, Vec<u8>, Option<bool>, usize) {
        let (mut ev, vetoed, n) = self.hooks(0, &|i| Ev::BR(i, a, s), &mut |_| {});
        let mut st = s;
        let mut effects = vec![];
        if !vetoed {
            for (i, r) in self.reducers.iter().enumerate() {
                ev.push(Ev::Reduce(i, st, a));
                st = mix(st, a, i);
                if r.effect != 0 {
                    effects.push(r.effect);
                }
            }
        }
        // need_dispatch is pinned only when the chain is unanimous (C03); vetoed: unspecified
        let nd = if vetoed {
            None
        } else if self.reducers.iter().all(|r| r.dispatch) {
            Some(true)
        } else if !self.reducers.is_empty() && self.reducers.iter().all(|r| !r.dispatch) {
            Some(false)
        } else {
            None
        };
        (ev, vetoed, st, effects, nd, n)
    }
    fn effect(&self, s2: St, a: Ac, effects_in: &[u8]) -> (Vec<Ev>, Vec<Ev>, usize) {
        let mut effs: Vec<u8> = effects_in.to_vec();
        let mut lens = vec![];
        let remove = self.remove.clone();
        let (mut ev, _done, n) = {
            let effs_cell = std::cell::RefCell::new(&mut effs);
            let lens_cell = std::cell::RefCell::new(&mut lens);
            self.hooks(1, &|i| Ev::BE(i, a, s2, 0), &mut |i| {
                let mut e = effs_cell.borrow_mut();
                lens_cell.borrow_mut().push(e.len());
                if remove[i] && !e.is_empty() {
                    e.remove(0);
                }
            })
        };
        // patch the effect counts seen by each hook
        let mut k = 0;
        for e in ev.iter_mut() {
            if let Ev::BE(i, aa, ss, _) = e.clone() {
                *e = Ev::BE(i, aa, ss, lens[k]);
                k += 1;
            }
        }
        let handed: Vec<Ev> = effs.iter().map(|e| if *e == 1 || *e == 3 { Ev::Task } else { Ev::Thunk }).collect();
        (ev, handed, n)
    }
    fn notify(&self, s2: St, a: Ac) -> (Vec<Ev>, usize) {
        let (mut ev, suppressed, n) = self.hooks(2, &|i| Ev::BD(i, a, s2), &mut |_| {});
        if !suppressed {
            for i in 0..self.n_subs {
                ev.push(Ev::Notify(i, s2, a));
            }
        }
        (ev, n)
    }
}

fn thorough() -> bool {
    std::env::var("VERIF_WITNESS_DEPTH").map(|v| v == "thorough").unwrap_or(false)
}
fn seed() -> u64 {
    std::env::var("VERIF_SEED").ok().and_then(|v| v.parse().ok()).unwrap_or(0)
}
fn next_rand(x: &mut u64) -> u64 {
    // xorshift64*: deterministic sampling seeded by VERIF_SEED
    *x ^= *x >> 12;
    *x ^= *x << 25;
    *x ^= *x >> 27;
    x.wrapping_mul(0x2545F4914F6CDD1D)
}
fn esc(s: &str) -> String {
    s.replace('\\', "\\\\").replace('"', "\\\"")
}
fn out(json: String) {
    if let Ok(p) = std::env::var("VERIF_WITNESS_OUT") {
        std::fs::write(p, json).unwrap();
    } else {
        println!("{}", json);
    }
}
fn found(suite: &str, obligation: &str, case: String, expected: String, observed: String) -> String {
    format!(
        "{{\"found\": true, \"suite\": \"{}\", \"obligation\": \"{}\", \"case\": \"{}\", \"expected\": \"{}\", \"observed\": \"{}\"}}",
        suite,
        obligation,
        esc(&case),
        esc(&expected),
        esc(&observed)
    )
}

// ---------------------------------------------------------------- suite `pipeline`: do_reduce / do_effect / do_notify
// case syntax: "pipeline mw=<n> v=<9 letters per mw: C D B E x3 hooks> rm=<0/1 per mw> red=<per reducer: D|K + 0|1|2> subs=<n> s=<state> a=<action>"
fn parse_pipeline(case: &str) -> (Model, St, Ac) {
    let mut m = Model { n_mw: 0, verdicts: vec![], remove: vec![], reducers: vec![], n_subs: 0 };
    let (mut s, mut a) = (0, 0);
    for tok in case.split_whitespace() {
        if let Some(v) = tok.strip_prefix("mw=") {
            m.n_mw = v.parse().unwrap();
        } else if let Some(v) = tok.strip_prefix("v=") {
            let cs: Vec<char> = v.chars().filter(|c| *c != '-').collect();
            for k in 0..cs.len() / 3 {
                let f = |c: char| match c {
                    'C' => V::Continue,
                    'D' => V::Done,
                    'B' => V::Break,
                    _ => V::Err,
                };
                m.verdicts.push([f(cs[3 * k]), f(cs[3 * k + 1]), f(cs[3 * k + 2])]);
            }
        } else if let Some(v) = tok.strip_prefix("rm=") {
            m.remove = v.chars().map(|c| c == '1').collect();
        } else if let Some(v) = tok.strip_prefix("red=") {
            let cs: Vec<char> = v.chars().filter(|c| *c != '-').collect();
            for k in 0..cs.len() / 2 {
                m.reducers.push(RCfg { dispatch: cs[2 * k] == 'D', effect: cs[2 * k + 1].to_digit(10).unwrap() as u8 });
            }
        } else if let Some(v) = tok.strip_prefix("subs=") {
            m.n_subs = v.parse().unwrap();
        } else if let Some(v) = tok.strip_prefix("s=") {
            s = v.parse().unwrap();
        } else if let Some(v) = tok.strip_prefix("a=") {
            a = v.parse().unwrap();
        }
    }
    while m.verdicts.len() < m.n_mw {
        m.verdicts.push([V::Continue; 3]);
    }
    while m.remove.len() < m.n_mw {
        m.remove.push(false);
    }
    (m, s, a)
}
fn fmt_pipeline(m: &Model, s: St, a: Ac) -> String {
    let v: Vec<String> = m.verdicts.iter().map(|h| h.iter().map(|x| vname(*x).chars().next().unwrap()).collect::<String>()).collect();
    let rm: String = m.remove.iter().map(|b| if *b { '1' } else { '0' }).collect();
    let red: Vec<String> = m.reducers.iter().map(|r| format!("{}{}", if r.dispatch { 'D' } else { 'K' }, r.effect)).collect();
    format!("pipeline mw={} v={} rm={} red={} subs={} s={} a={}", m.n_mw, v.join("-"), rm, red.join("-"), m.n_subs, s, a)
}

struct Rig {
    store: Arc<StoreImpl<St, Ac>>,
    log: Log,
    verdicts: Arc<Mutex<Vec<[V; 3]>>>,
    remove: Arc<Mutex<Vec<bool>>>,
}
fn rig(n_mw: usize, reducers: &[RCfg], n_subs: usize) -> Rig {
    let log: Log = Arc::new(Mutex::new(vec![]));
    let verdicts = Arc::new(Mutex::new(vec![[V::Continue; 3]; n_mw.max(1)]));
    let remove = Arc::new(Mutex::new(vec![false; n_mw.max(1)]));
    let store = StoreImpl::<St, Ac>::new(0);
    for (i, r) in reducers.iter().enumerate() {
        store.add_reducer(Box::new(Rd { id: i, cfg: *r, log: log.clone() }));
    }
    for i in 0..n_mw {
        store.add_middleware(Arc::new(Mw { id: i, verdicts: verdicts.clone(), remove_effect: remove.clone(), log: log.clone() }));
    }
    for i in 0..n_subs {
        let _ = store.add_subscriber(Arc::new(Sb { id: i, log: log.clone() }));
    }
    Rig { store, log, verdicts, remove }
}

fn run_pipeline_case(r: &Rig, m: &Model, s: St, a: Ac) -> Option<(String, String, String)> {
    *r.verdicts.lock().unwrap() = if m.n_mw == 0 { vec![[V::Continue; 3]] } else { m.verdicts.clone() };
    *r.remove.lock().unwrap() = if m.n_mw == 0 { vec![false] } else { m.remove.clone() };
    let d: Arc<dyn Dispatcher<Ac>> = Arc::new(RecDispatcher { log: r.log.clone() });
    let before = r.store.get_metrics();
    // ---- do_reduce
    r.log.lock().unwrap().clear();
    let (nd, s2, effects) = r.store.do_reduce(&a, s, d.clone(), Instant::now());
    let got: Vec<Ev> = r.log.lock().unwrap().clone();
    let (exp_ev, vetoed, exp_s2, exp_eff, exp_nd, n_br) = m.reduce(s, a);
    if got != exp_ev {
        let ob = if vetoed || exp_ev.iter().any(|e| matches!(e, Ev::OnErr(_))) || got.iter().filter(|e| matches!(e, Ev::BR(..) | Ev::OnErr(_))).ne(exp_ev.iter().filter(|e| matches!(e, Ev::BR(..) | Ev::OnErr(_)))) { "O-C12-do_reduce-hooks" } else { "O-C01-do_reduce-fold" };
        return Some((ob.into(), format!("do_reduce events {:?}", exp_ev), format!("do_reduce events {:?}", got)));
    }
    if s2 != exp_s2 {
        return Some((if vetoed { "O-C12-do_reduce-veto" } else { "O-C01-do_reduce-fold" }.into(), format!("do_reduce state {}", exp_s2), format!("do_reduce state {}", s2)));
    }
    let mut effects = effects.unwrap_or_default();
    let got_eff: Vec<u8> = effects.iter().map(|e| match e { Effect::Task(_) => 1, Effect::Thunk(_) => 2, Effect::Function(..) => 3, Effect::Action(_) => 4 }).collect();
    if got_eff != exp_eff {
        return Some(("O-C11-do_reduce-effects".into(), format!("effects returned {:?}", exp_eff), format!("effects returned {:?}", got_eff)));
    }
    if let Some(x) = exp_nd {
        if nd != x {
            return Some(("O-C03-do_reduce-need-dispatch".into(), format!("need_dispatch {}", x), format!("need_dispatch {}", nd)));
        }
    }
    // ---- do_effect
    r.log.lock().unwrap().clear();
    r.store.do_effect(&a, &s2, &mut effects, d.clone());
    let got: Vec<Ev> = r.log.lock().unwrap().clone();
    let (exp_hooks, exp_handed, n_be) = m.effect(s2, a, &exp_eff);
    let got_hooks: Vec<Ev> = got.iter().filter(|e| !matches!(e, Ev::Thunk | Ev::Task)).cloned().collect();
    let got_handed: Vec<Ev> = got.iter().filter(|e| matches!(e, Ev::Thunk | Ev::Task)).cloned().collect();
    if got_hooks != exp_hooks {
        return Some(("O-C12-do_effect-trace".into(), format!("do_effect hooks {:?}", exp_hooks), format!("do_effect hooks {:?}", got_hooks)));
    }
    // C11 says exactly once, on a worker: neither the order nor the entry point (dispatch_task or dispatch_thunk with an
    // ignored dispatcher) through which a Function/Task effect reaches the pool is part of it; thunks and action effects
    // need the dispatcher, so they can only go through dispatch_thunk
    let count = |v: &Vec<Ev>, k: &Ev| v.iter().filter(|e| *e == k).count();
    let same_ms = got_handed.len() == exp_handed.len() && count(&got_handed, &Ev::Thunk) >= count(&exp_handed, &Ev::Thunk);
    if !same_ms || !effects.is_empty() {
        return Some(("O-C11-do_effect-spawn".into(), format!("handed to the dispatcher {:?}, 0 left", exp_handed), format!("handed to the dispatcher {:?}, {} left", got_handed, effects.len())));
    }
    // ---- do_notify
    r.log.lock().unwrap().clear();
    r.store.do_notify(&a, &s2, d.clone(), Instant::now());
    let got: Vec<Ev> = r.log.lock().unwrap().clone();
    let (exp_ev, n_bd) = m.notify(s2, a);
    if got != exp_ev {
        return Some(("O-C03-do_notify-trace".into(), format!("do_notify events {:?}", exp_ev), format!("do_notify events {:?}", got)));
    }
    // ---- metrics deltas of the three calls (C18 call sites)
    let after = r.store.get_metrics();
    let exp_mw = if m.n_mw > 0 { n_br + n_be + n_bd } else { 0 };
    if after.middleware_executed - before.middleware_executed != exp_mw {
        return Some(("O-C18-do_reduce-l0-count".into(), format!("middleware_executed += {}", exp_mw), format!("middleware_executed += {}", after.middleware_executed - before.middleware_executed)));
    }
    if after.action_reduced - before.action_reduced != if vetoed { 0 } else { 1 } {
        return Some(("O-C12-do_reduce-hooks".into(), format!("action_reduced += {}", if vetoed { 0 } else { 1 }), format!("action_reduced += {}", after.action_reduced - before.action_reduced)));
    }
    if after.effect_issued - before.effect_issued != exp_eff.len() {
        return Some(("O-C12-do_effect-trace".into(), format!("effect_issued += {}", exp_eff.len()), format!("effect_issued += {}", after.effect_issued - before.effect_issued)));
    }
    None
}

fn suite_pipeline() -> Option<String> {
    let red_cfgs: Vec<Vec<RCfg>> = vec![
        vec![RCfg { dispatch: true, effect: 0 }],
        vec![RCfg { dispatch: false, effect: 1 }],
        vec![RCfg { dispatch: true, effect: 1 }, RCfg { dispatch: true, effect: 2 }],
        vec![RCfg { dispatch: false, effect: 0 }, RCfg { dispatch: false, effect: 2 }],
        vec![RCfg { dispatch: true, effect: 2 }, RCfg { dispatch: false, effect: 1 }, RCfg { dispatch: true, effect: 0 }],
        vec![RCfg { dispatch: true, effect: 3 }, RCfg { dispatch: true, effect: 3 }, RCfg { dispatch: true, effect: 4 }],
    ];
    for n_mw in 0..=2usize {
        for reds in red_cfgs.iter() {
            for n_subs in [0usize, 2] {
                let r = rig(n_mw, reds, n_subs);
                let combos = 4usize.pow(3 * n_mw as u32);
                for code in 0..combos {
                    let mut verdicts = vec![];
                    let mut c = code;
                    for _ in 0..n_mw {
                        let mut h = [V::Continue; 3];
                        for k in 0..3 {
                            h[k] = VS[c % 4];
                            c /= 4;
                        }
                        verdicts.push(h);
                    }
                    for rm in 0..(1usize << n_mw) {
                        if n_mw == 2 && rm != 0 && code % 7 != 0 {
                            continue; // thin out the removal dimension
                        }
                        let remove: Vec<bool> = (0..n_mw).map(|i| rm & (1 << i) != 0).collect();
                        let m = Model { n_mw, verdicts: verdicts.clone(), remove, reducers: reds.clone(), n_subs };
                        let (s, a) = (17 + code as i64, 5);
                        if let Some((ob, exp, got)) = run_pipeline_case(&r, &m, s, a) {
                            r.store.stop();
                            return Some(found("pipeline", &ob, fmt_pipeline(&m, s, a), exp, got));
                        }
                    }
                }
                r.store.stop();
            }
        }
    }
    if thorough() {
        // 3 middlewares: 4^9 verdict assignments, sampled (seeded), with random effect removal
        let mut x = 0x9E3779B97F4A7C15u64 ^ seed().wrapping_add(1);
        for reds in red_cfgs.iter() {
            let r = rig(3, reds, 2);
            for k in 0..4000usize {
                let mut verdicts = vec![];
                for _ in 0..3 {
                    let mut h = [V::Continue; 3];
                    for j in 0..3 {
                        h[j] = VS[(next_rand(&mut x) % 4) as usize];
                    }
                    verdicts.push(h);
                }
                let remove: Vec<bool> = (0..3).map(|_| next_rand(&mut x) % 4 == 0).collect();
                let m = Model { n_mw: 3, verdicts, remove, reducers: reds.clone(), n_subs: 2 };
                let (s, a) = (100 + k as i64, 9);
                if let Some((ob, exp, got)) = run_pipeline_case(&r, &m, s, a) {
                    r.store.stop();
                    return Some(found("pipeline", &ob, fmt_pipeline(&m, s, a), exp, got));
                }
            }
            r.store.stop();
        }
    }
    None
}
fn replay_pipeline(case: &str) -> Option<String> {
    let (m, s, a) = parse_pipeline(case);
    let r = rig(m.n_mw, &m.reducers, m.n_subs);
    let res = run_pipeline_case(&r, &m, s, a);
    r.store.stop();
    res.map(|(ob, exp, got)| found("pipeline", &ob, case.to_string(), exp, got))
}

// ---------------------------------------------------------------- suite `loop`: end to end through the real reducer loop
// case: "loop red=<..> subs=<n> cap=<n> actions=<a,b,c>"
fn run_loop_case(reds: &[RCfg], n_subs: usize, cap: usize, actions: &[Ac]) -> Option<(String, String, String)> {
    let log: Log = Arc::new(Mutex::new(vec![]));
    let mut b = StoreBuilder::<St, Ac>::new(3).with_capacity(cap);
    for (i, r) in reds.iter().enumerate() {
        b = b.add_reducer(Box::new(Rd { id: i, cfg: RCfg { dispatch: r.dispatch, effect: 0 }, log: log.clone() }));
    }
    let store = b.build().unwrap();
    for i in 0..n_subs {
        let _ = store.add_subscriber(Arc::new(Sb { id: i, log: log.clone() }));
    }
    let reads: Arc<Mutex<Vec<(St, St)>>> = Arc::new(Mutex::new(vec![]));
    {
        // C08: while a subscriber is told about an action, get_state already returns that state (or newer)
        struct Reader {
            store: std::sync::Weak<StoreImpl<St, Ac>>,
            reads: Arc<Mutex<Vec<(St, St)>>>,
        }
        impl Subscriber<St, Ac> for Reader {
            fn on_notify(&self, state: &St, _a: &Ac) {
                if let Some(s) = self.store.upgrade() {
                    self.reads.lock().unwrap().push((*state, s.get_state()));
                }
            }
        }
        let _ = store.add_subscriber(Arc::new(Reader { store: Arc::downgrade(&store), reads: reads.clone() }));
    }
    for (k, a) in actions.iter().enumerate() {
        // alternate between the two entry points: the inherent StoreImpl::dispatch and Dispatcher::dispatch
        let r = if k % 2 == 0 { StoreImpl::dispatch(&*store, *a).is_ok() } else { <Arc<StoreImpl<St, Ac>> as Dispatcher<Ac>>::dispatch(&store, *a).is_ok() };
        if !r {
            return Some(("O-C02-dispatch-open".into(), "dispatch Ok on an open store".into(), "Err".into()));
        }
    }
    store.stop();
    // reference: sequential fold, one block per action
    let mut exp = vec![];
    let mut s: St = 3;
    let all_d = reds.iter().all(|r| r.dispatch);
    let all_k = reds.iter().all(|r| !r.dispatch);
    let mut states = vec![];
    for a in actions {
        for (i, _) in reds.iter().enumerate() {
            exp.push(Ev::Reduce(i, s, *a));
            s = mix(s, *a, i);
        }
        states.push(s);
        if all_d {
            for i in 0..n_subs {
                exp.push(Ev::Notify(i, s, *a));
            }
        }
    }
    for i in 0..n_subs {
        exp.push(Ev::Unsub(i));
    }
    let mut got: Vec<Ev> = log.lock().unwrap().clone();
    {
        // the order in which the subscribers are released at shutdown is not part of any property: compare the
        // trailing run of release events as a set
        let mut cut = got.len();
        while cut > 0 && matches!(got[cut - 1], Ev::Unsub(_)) {
            cut -= 1;
        }
        got[cut..].sort_by_key(|e| if let Ev::Unsub(i) = e { *i } else { 0 });
    }
    if all_d || all_k {
        if got != exp {
            let reduces_ok = got.iter().filter(|e| matches!(e, Ev::Reduce(..))).eq(exp.iter().filter(|e| matches!(e, Ev::Reduce(..))));
            let ob = if !reduces_ok { "O-C01-loop-inv-state" } else { "O-C07-loop-inv-trace" };
            return Some((ob.into(), format!("events {:?}", exp), format!("events {:?}", got)));
        }
    } else {
        let gr: Vec<&Ev> = got.iter().filter(|e| matches!(e, Ev::Reduce(..))).collect();
        let er: Vec<&Ev> = exp.iter().filter(|e| matches!(e, Ev::Reduce(..))).collect();
        if gr != er {
            return Some(("O-C01-loop-inv-state".into(), format!("reduce events {:?}", er), format!("reduce events {:?}", gr)));
        }
    }
    if store.get_state() != s {
        return Some(("O-C01-loop-state".into(), format!("get_state() after stop = {}", s), format!("{}", store.get_state())));
    }
    for (told, read) in reads.lock().unwrap().iter() {
        let pos_told = states.iter().position(|x| x == told);
        let pos_read = states.iter().position(|x| x == read);
        if pos_told.is_none() || pos_read.is_none() || pos_read.unwrap() < pos_told.unwrap() {
            return Some(("O-C07-loop-inv-trace".into(), format!("get_state() inside on_notify({}) returns that state or a newer one", told), format!("{}", read)));
        }
    }
    let m = store.get_metrics();
    // whether the shutdown marker is booked as received is not part of the statement
    if (m.action_received != actions.len() + 1 && m.action_received != actions.len()) || m.action_reduced != actions.len() {
        return Some(("O-C07-loop-inv-trace".into(), format!("action_received {} (+1 if the marker is counted), action_reduced {}", actions.len(), actions.len()), format!("action_received {}, action_reduced {}", m.action_received, m.action_reduced)));
    }
    // C04: finality
    if store.dispatch(1).is_ok() {
        return Some(("O-C04-dispatch-closed".into(), "dispatch after stop() returns Err".into(), "Ok".into()));
    }
    let d: Arc<StoreImpl<St, Ac>> = store.clone();
    if <Arc<StoreImpl<St, Ac>> as Dispatcher<Ac>>::dispatch(&d, 1).is_ok() {
        return Some(("O-C04-ddispatch-closed".into(), "Dispatcher::dispatch after stop() returns Err".into(), "Ok".into()));
    }
    let len_before = log.lock().unwrap().len();
    store.stop();
    if log.lock().unwrap().len() != len_before || store.get_state() != s {
        return Some(("O-C04-stop-final".into(), "second stop() changes nothing".into(), "callbacks ran or state changed".into()));
    }
    None
}
// a get_state() that overlaps the write-back of a reduced state (the reader is parked inside State::clone, holding the
// state cell): the reduced state must not be lost (C01: every action starts from the state left by the previous one)
thread_local! {
    static PARK_IN_CLONE: std::cell::RefCell<Option<(std::sync::mpsc::Sender<()>, std::sync::mpsc::Receiver<()>)>> = std::cell::RefCell::new(None);
}
#[derive(Debug, PartialEq)]
struct BigSt(Vec<i64>);
impl Clone for BigSt {
    fn clone(&self) -> Self {
        let hook = PARK_IN_CLONE.with(|p| p.borrow_mut().take());
        if let Some((entered, gate)) = hook {
            let _ = entered.send(());
            let _ = gate.recv_timeout(Duration::from_secs(5));
        }
        BigSt(self.0.clone())
    }
}
fn run_loop_readerrace() -> Option<(String, String, String)> {
    use std::sync::mpsc;
    let (in_reduce_tx, in_reduce_rx) = mpsc::channel::<()>();
    let in_reduce_tx = Mutex::new(in_reduce_tx);
    let (reduce_gate_tx, reduce_gate_rx) = mpsc::channel::<()>();
    let reduce_gate_rx = Mutex::new(reduce_gate_rx);
    let store = StoreBuilder::<BigSt, i64>::new(BigSt(vec![]))
        .with_reducer(Box::new(crate::reducer::FnReducer::from(move |s: &BigSt, a: &i64| {
            if *a == 1 {
                let _ = in_reduce_tx.lock().unwrap().send(());
                let _ = reduce_gate_rx.lock().unwrap().recv_timeout(Duration::from_secs(10));
            }
            let mut v = s.0.clone();
            v.push(*a);
            DispatchOp::Dispatch(BigSt(v), None)
        })))
        .build()
        .unwrap();
    store.dispatch(1).unwrap();
    if in_reduce_rx.recv_timeout(Duration::from_secs(10)).is_err() {
        let _ = reduce_gate_tx.send(());
        store.stop();
        return None;
    }
    let (entered_tx, entered_rx) = mpsc::channel::<()>();
    let (reader_gate_tx, reader_gate_rx) = mpsc::channel::<()>();
    let s2 = store.clone();
    let reader = std::thread::spawn(move || {
        PARK_IN_CLONE.with(|p| *p.borrow_mut() = Some((entered_tx, reader_gate_rx)));
        let _ = s2.get_state();
    });
    let parked = entered_rx.recv_timeout(Duration::from_secs(10)).is_ok();
    let _ = reduce_gate_tx.send(());
    // the reducer reaches its write-back while the reader still holds the cell
    std::thread::sleep(Duration::from_millis(400));
    let _ = reader_gate_tx.send(());
    let _ = reader.join();
    store.dispatch(2).unwrap();
    store.stop();
    let fin = store.get_state();
    if parked && fin != BigSt(vec![1, 2]) {
        return Some(("O-C01-loop-inv-state".into(), "get_state() after stop() == [1, 2] (a reader was inside get_state() while action 1 was written back)".into(), format!("{:?}", fin.0)));
    }
    None
}
// the whole pipeline through a running store (loop + do_reduce + do_effect + do_notify together): middlewares with a
// fixed verdict per hook, a reducer chain, subscribers; the log of all callbacks is compared, action by action, with the
// reference semantics.  Where the statements leave the notify decision open (vetoed action, mixed chain) both are accepted.
// case: "loop storepipe mw=<n> v=<3 letters per middleware> red=<chain> subs=<n>"
fn run_storepipe_case(m: &Model, actions: &[Ac]) -> Option<(String, String, String)> {
    let log: Log = Arc::new(Mutex::new(vec![]));
    let verdicts = Arc::new(Mutex::new(if m.n_mw == 0 { vec![[V::Continue; 3]] } else { m.verdicts.clone() }));
    let remove = Arc::new(Mutex::new(if m.n_mw == 0 { vec![false] } else { m.remove.clone() }));
    let mut b = StoreBuilder::<St, Ac>::new(3);
    if m.reducers.is_empty() {
        b = b.without_reducer();
    }
    for (i, r) in m.reducers.iter().enumerate() {
        b = b.add_reducer(Box::new(Rd { id: i, cfg: *r, log: log.clone() }));
    }
    for i in 0..m.n_mw {
        b = b.add_middleware(Arc::new(Mw { id: i, verdicts: verdicts.clone(), remove_effect: remove.clone(), log: log.clone() }));
    }
    let store = match b.build() {
        Ok(s) => s,
        Err(_) => return Some(("O-C17-build-validation".into(), "build succeeds".into(), "Err".into())),
    };
    for i in 0..m.n_subs {
        let _ = store.add_subscriber(Arc::new(Sb { id: i, log: log.clone() }));
    }
    for a in actions {
        if store.dispatch(*a).is_err() {
            return Some(("O-C02-dispatch-open".into(), "dispatch Ok on an open store".into(), "Err".into()));
        }
    }
    store.stop();
    let got: Vec<Ev> = log.lock().unwrap().iter().filter(|e| !matches!(e, Ev::Unsub(_))).cloned().collect();
    let mut pos = 0usize;
    let mut st: St = 3;
    for a in actions {
        let (ev_r, vetoed, s2, effs, nd, _n) = m.reduce(st, *a);
        let (ev_e, _handed, _n2) = m.effect(s2, *a, &effs);
        let (ev_n, _n3) = m.notify(s2, *a);
        let mut exp: Vec<Ev> = ev_r.clone();
        exp.extend(ev_e.iter().cloned());
        let end = (pos + exp.len()).min(got.len());
        if got[pos..end] != exp[..] {
            let hooks_differ = got[pos..end].iter().filter(|e| matches!(e, Ev::BR(..) | Ev::BE(..) | Ev::OnErr(_))).ne(exp.iter().filter(|e| matches!(e, Ev::BR(..) | Ev::BE(..) | Ev::OnErr(_))));
            let ob = if hooks_differ || vetoed { "O-C12-do_effect-trace" } else { "O-C07-loop-inv-trace" };
            return Some((ob.into(), format!("action {}: reduce and effect phases {:?}", a, exp), format!("{:?}", &got[pos..end])));
        }
        pos = end;
        let has_block = pos + ev_n.len() <= got.len() && got[pos..pos + ev_n.len()] == ev_n[..] && !ev_n.is_empty();
        match nd {
            Some(true) => {
                if !ev_n.is_empty() && !has_block {
                    return Some(("O-C03-do_notify-trace".into(), format!("action {}: notification phase {:?}", a, ev_n), format!("{:?}", &got[pos..(pos + ev_n.len()).min(got.len())])));
                }
                pos += ev_n.len();
            }
            Some(false) => {}
            None => {
                if has_block {
                    pos += ev_n.len();
                }
            }
        }
        st = s2;
    }
    if pos != got.len() {
        return Some(("O-C07-loop-inv-trace".into(), "no callback beyond the per-action blocks".into(), format!("{:?}", &got[pos..])));
    }
    if store.get_state() != st {
        return Some(("O-C01-loop-state".into(), format!("get_state() after stop = {}", st), format!("{}", store.get_state())));
    }
    None
}
fn fmt_storepipe(m: &Model) -> String {
    let v: Vec<String> = m.verdicts.iter().map(|t| t.iter().map(|x| vname(*x).chars().next().unwrap()).collect::<String>()).collect();
    let r: Vec<String> = m.reducers.iter().map(|r| format!("{}{}", if r.dispatch { 'D' } else { 'K' }, r.effect)).collect();
    format!("loop storepipe mw={} v={} red={} subs={}", m.n_mw, v.join("/"), r.join(","), m.n_subs)
}
fn suite_storepipe() -> Option<String> {
    let chains: Vec<Vec<RCfg>> = vec![
        vec![RCfg { dispatch: true, effect: 0 }],
        vec![RCfg { dispatch: false, effect: 0 }],
        vec![RCfg { dispatch: true, effect: 1 }],
        vec![RCfg { dispatch: false, effect: 1 }],
        vec![RCfg { dispatch: true, effect: 1 }, RCfg { dispatch: true, effect: 0 }],
        vec![RCfg { dispatch: false, effect: 0 }, RCfg { dispatch: true, effect: 1 }],
        vec![],
    ];
    for chain in chains.iter() {
        // no middleware
        let m = Model { n_mw: 0, verdicts: vec![], remove: vec![], reducers: chain.clone(), n_subs: 2 };
        if let Some((ob, exp, got)) = run_storepipe_case(&m, &[1, 2]) {
            return Some(found("loop", &ob, fmt_storepipe(&m), exp, got));
        }
        // one middleware: every verdict triple
        for code in 0..64usize {
            let t = [VS[code % 4], VS[(code / 4) % 4], VS[(code / 16) % 4]];
            for rm in [false, true] {
                if rm && chain.iter().all(|r| r.effect == 0) {
                    continue;
                }
                let m = Model { n_mw: 1, verdicts: vec![t], remove: vec![rm], reducers: chain.clone(), n_subs: 1 };
                if let Some((ob, exp, got)) = run_storepipe_case(&m, &[1, 2]) {
                    return Some(found("loop", &ob, fmt_storepipe(&m) + if rm { " rm=1" } else { "" }, exp, got));
                }
            }
        }
    }
    // two middlewares: the first takes every verdict triple, the second one of three fixed ones
    let chain = vec![RCfg { dispatch: true, effect: 1 }];
    for code in 0..64usize {
        let t = [VS[code % 4], VS[(code / 4) % 4], VS[(code / 16) % 4]];
        for t2 in [[V::Continue; 3], [V::Done; 3], [V::Err; 3]] {
            let m = Model { n_mw: 2, verdicts: vec![t, t2], remove: vec![false, false], reducers: chain.clone(), n_subs: 1 };
            if let Some((ob, exp, got)) = run_storepipe_case(&m, &[1]) {
                return Some(found("loop", &ob, fmt_storepipe(&m), exp, got));
            }
        }
    }
    None
}
fn replay_storepipe(case: &str) -> Option<String> {
    let mut n_mw = 0usize;
    let mut verdicts: Vec<[V; 3]> = vec![];
    let mut reducers: Vec<RCfg> = vec![];
    let mut n_subs = 1usize;
    let mut rm = false;
    let vof = |c: char| match c { 'C' => V::Continue, 'D' => V::Done, 'B' => V::Break, _ => V::Err };
    for tok in case.split_whitespace() {
        if let Some(v) = tok.strip_prefix("mw=") {
            n_mw = v.parse().unwrap();
        } else if let Some(v) = tok.strip_prefix("v=") {
            for t in v.split('/').filter(|x| x.len() == 3) {
                let c: Vec<char> = t.chars().collect();
                verdicts.push([vof(c[0]), vof(c[1]), vof(c[2])]);
            }
        } else if let Some(v) = tok.strip_prefix("red=") {
            for t in v.split(',').filter(|x| x.len() >= 2) {
                let c: Vec<char> = t.chars().collect();
                reducers.push(RCfg { dispatch: c[0] == 'D', effect: c[1].to_digit(10).unwrap_or(0) as u8 });
            }
        } else if let Some(v) = tok.strip_prefix("subs=") {
            n_subs = v.parse().unwrap();
        } else if tok == "rm=1" {
            rm = true;
        }
    }
    let remove = vec![rm; n_mw.max(1)];
    let m = Model { n_mw, verdicts, remove: if n_mw == 0 { vec![] } else { remove[..n_mw].to_vec() }, reducers, n_subs };
    let actions: Vec<Ac> = if n_mw == 2 { vec![1] } else { vec![1, 2] };
    run_storepipe_case(&m, &actions).map(|(ob, exp, got)| found("loop", &ob, case.to_string(), exp, got))
}
fn suite_loop() -> Option<String> {
    if let Some(r) = suite_storepipe() {
        return Some(r);
    }
    if let Some((ob, exp, got)) = run_loop_readerrace() {
        return Some(found("loop", &ob, "loop readerrace".to_string(), exp, got));
    }
    let red_cfgs: Vec<Vec<RCfg>> = vec![
        vec![RCfg { dispatch: true, effect: 0 }],
        vec![RCfg { dispatch: false, effect: 0 }],
        vec![RCfg { dispatch: true, effect: 0 }, RCfg { dispatch: true, effect: 0 }],
        vec![RCfg { dispatch: false, effect: 0 }, RCfg { dispatch: false, effect: 0 }, RCfg { dispatch: false, effect: 0 }],
        vec![RCfg { dispatch: true, effect: 0 }, RCfg { dispatch: false, effect: 0 }],
    ];
    let action_seqs: Vec<Vec<Ac>> = vec![vec![], vec![4], vec![1, 2], vec![2, 1, 2], vec![5, 4, 3, 2, 1, 9, 8]];
    for reds in red_cfgs.iter() {
        for n_subs in [0usize, 1, 3] {
            for cap in [1usize, 2, 16] {
                for acts in action_seqs.iter() {
                    if let Some((ob, exp, got)) = run_loop_case(reds, n_subs, cap, acts) {
                        let red: Vec<String> = reds.iter().map(|r| format!("{}0", if r.dispatch { 'D' } else { 'K' })).collect();
                        let a: Vec<String> = acts.iter().map(|x| x.to_string()).collect();
                        return Some(found("loop", &ob, format!("loop red={} subs={} cap={} actions={}", red.join("-"), n_subs, cap, a.join(",")), exp, got));
                    }
                }
            }
        }
    }
    None
}
fn replay_loop(case: &str) -> Option<String> {
    if case.contains("storepipe") {
        return replay_storepipe(case);
    }
    if case.contains("readerrace") {
        return run_loop_readerrace().map(|(ob, exp, got)| found("loop", &ob, case.to_string(), exp, got));
    }
    let (m, _, _) = parse_pipeline(case);
    let mut cap = 16;
    let mut acts: Vec<Ac> = vec![];
    for tok in case.split_whitespace() {
        if let Some(v) = tok.strip_prefix("cap=") {
            cap = v.parse().unwrap();
        } else if let Some(v) = tok.strip_prefix("actions=") {
            acts = v.split(',').filter(|x| !x.is_empty()).map(|x| x.parse().unwrap()).collect();
        }
    }
    run_loop_case(&m.reducers, m.n_subs, cap, &acts).map(|(ob, exp, got)| found("loop", &ob, case.to_string(), exp, got))
}

// ---------------------------------------------------------------- suite `channel`: SenderChannel::send with a stalled consumer
// case: "channel policy=<B|O|L> cap=<n> n=<burst> metrics=<0|1>"
fn run_channel_case(policy: char, cap: usize, n: usize, with_metrics: bool) -> Option<(String, String, String)> {
    let pol = match policy {
        'O' => BackpressurePolicy::DropOldest,
        'L' => BackpressurePolicy::DropLatest,
        _ => BackpressurePolicy::BlockOnFull,
    };
    let metrics = Arc::new(CountMetrics::default());
    let m: Option<Arc<dyn crate::metrics::Metrics + Send + Sync>> = if with_metrics { Some(metrics.clone()) } else { None };
    let (tx, rx) = BackpressureChannel::<Ac>::pair_with("w", cap, pol, m);
    let mut model: Vec<Ac> = vec![];
    let mut dropped = 0usize;
    let burst = if policy == 'B' { n.min(cap) } else { n };
    for i in 0..burst {
        let item = 100 + i as Ac;
        let started = Instant::now();
        let r = tx.send(ActionOp::Action(item));
        if policy != 'B' && started.elapsed() > Duration::from_millis(5000) {
            return Some(("O-C06-send-never-blocks".into(), "send returns at once".into(), "blocked".into()));
        }
        let exp_ok = match policy {
            'L' => model.len() < cap,
            _ => true,
        };
        match policy {
            'O' => {
                if model.len() == cap {
                    model.remove(0);
                    dropped += 1;
                }
                model.push(item);
            }
            'L' => {
                if model.len() < cap {
                    model.push(item);
                } else {
                    dropped += 1;
                }
            }
            _ => model.push(item),
        }
        if r.is_ok() != exp_ok {
            let ob = if policy == 'L' { "O-C06-send-drop-latest-stalled" } else if policy == 'O' { "O-C06-send-drop-oldest-stalled" } else { "O-C05-send-block-lossless" };
            return Some((ob.into(), format!("send #{} returns {}", i, if exp_ok { "Ok" } else { "Err" }), format!("{}", if r.is_ok() { "Ok" } else { "Err" })));
        }
    }
    let mut got = vec![];
    while let Some(ActionOp::Action(x)) = rx.try_recv() {
        got.push(x);
    }
    if got != model {
        let ob = if policy == 'L' { "O-C06-send-drop-latest-stalled" } else if policy == 'O' { "O-C06-send-drop-oldest-stalled" } else { "O-C05-send-block-lossless" };
        return Some((ob.into(), format!("queue after the burst {:?}", model), format!("{:?}", got)));
    }
    let counted = metrics.action_dropped.load(Ordering::SeqCst);
    if with_metrics && counted != dropped {
        let ob = if policy == 'L' { "O-C06-send-drop-latest-stalled" } else { "O-C06-send-drop-oldest-stalled" };
        return Some((ob.into(), format!("action_dropped {}", dropped), format!("{}", counted)));
    }
    None
}
fn suite_channel() -> Option<String> {
    for policy in ['B', 'O', 'L'] {
        for cap in 1..=(if thorough() { 6usize } else { 3usize }) {
            for n in 0..=(2 * cap + 2) {
                for wm in [true, false] {
                    if let Some((ob, exp, got)) = run_channel_case(policy, cap, n, wm) {
                        return Some(found("channel", &ob, format!("channel policy={} cap={} n={} metrics={}", policy, cap, n, wm as u8), exp, got));
                    }
                }
            }
        }
    }
    None
}
fn replay_channel(case: &str) -> Option<String> {
    let (mut p, mut cap, mut n, mut wm) = ('B', 1, 0, true);
    for tok in case.split_whitespace() {
        if let Some(v) = tok.strip_prefix("policy=") {
            p = v.chars().next().unwrap();
        } else if let Some(v) = tok.strip_prefix("cap=") {
            cap = v.parse().unwrap();
        } else if let Some(v) = tok.strip_prefix("n=") {
            n = v.parse().unwrap();
        } else if let Some(v) = tok.strip_prefix("metrics=") {
            wm = v == "1";
        }
    }
    run_channel_case(p, cap, n, wm).map(|(ob, exp, got)| found("channel", &ob, case.to_string(), exp, got))
}

// ---------------------------------------------------------------- suite `builder`: every call sequence up to length 3
// alphabet: n=with_name("x") e=with_name("") r=with_reducer R=with_reducers([r,r]) a=add_reducer w=without_reducer
//           c=with_capacity(4) z=with_capacity(0) p=with_policy(DropLatest) m=with_middleware M=with_middlewares([m,m]) d=add_middleware
const ALPHA: &str = "nerRawczpmMdD";
fn run_builder_case(seq: &str) -> Option<(String, String, String)> {
    let log: Log = Arc::new(Mutex::new(vec![]));
    let verdicts = Arc::new(Mutex::new(vec![[V::Continue; 3]; 8]));
    let remove = Arc::new(Mutex::new(vec![false; 8]));
    let mut b = StoreBuilder::<St, Ac>::new(3);
    // record of last settings
    let (mut name_empty, mut reducers, mut opt_out, mut cap, mut pol_latest, mut mws) = (false, 0usize, false, 16usize, false, 0usize);
    let mk_r = |i: usize| -> Box<dyn Reducer<St, Ac> + Send + Sync> { Box::new(Rd { id: i, cfg: RCfg { dispatch: true, effect: 0 }, log: log.clone() }) };
    let mk_m = |i: usize| -> Arc<dyn Middleware<St, Ac> + Send + Sync> { Arc::new(Mw { id: i, verdicts: verdicts.clone(), remove_effect: remove.clone(), log: log.clone() }) };
    let shared_m = mk_m(7);
    for ch in seq.chars() {
        b = match ch {
            'n' => { name_empty = false; b.with_name("x".to_string()) }
            'e' => { name_empty = true; b.with_name(String::new()) }
            'r' => { reducers = 1; opt_out = false; b.with_reducer(mk_r(0)) }
            'R' => { reducers = 2; opt_out = false; b.with_reducers(vec![mk_r(0), mk_r(1)]) }
            'a' => { reducers += 1; b.add_reducer(mk_r(reducers - 1)) }
            'w' => { opt_out = true; b.without_reducer() }
            'c' => { cap = 4; b.with_capacity(4) }
            'z' => { cap = 0; b.with_capacity(0) }
            'p' => { pol_latest = true; b.with_policy(BackpressurePolicy::DropLatest) }
            'm' => { mws = 1; b.with_middleware(mk_m(0)) }
            'M' => { mws = 2; b.with_middlewares(vec![mk_m(0), mk_m(1)]) }
            'd' => { mws += 1; b.add_middleware(mk_m(mws - 1)) }
            // the very same middleware object again: add_* appends whatever it is given
            'D' => { mws += 1; b.add_middleware(shared_m.clone()) }
            _ => b,
        };
    }
    let exp_err = cap == 0 || name_empty || (reducers == 0 && !opt_out);
    let r = b.build();
    if r.is_err() != exp_err {
        let ob = if seq.contains('c') || seq.contains('z') { "O-C17-with_capacity" } else { "O-C17-build-validation" };
        if let Ok(s) = r { s.stop(); }
        return Some((ob.into(), format!("build() {}", if exp_err { "Err" } else { "Ok" }), format!("{}", if exp_err { "Ok" } else { "Err" })));
    }
    if let Ok(store) = r {
        // behavioural probes: reducer chain, middleware chain
        let _ = store.dispatch(2);
        store.stop();
        let got = log.lock().unwrap().clone();
        let n_red = got.iter().filter(|e| matches!(e, Ev::Reduce(..))).count();
        let n_br = got.iter().filter(|e| matches!(e, Ev::BR(..))).count();
        if n_red != reducers || n_br != mws {
            return Some(("O-C17-build-uses-settings".into(), format!("{} reducers and {} middlewares run for one action", reducers, mws), format!("{} reducers, {} middlewares", n_red, n_br)));
        }
    }
    None
}
fn suite_builder() -> Option<String> {
    let a: Vec<char> = ALPHA.chars().collect();
    let mut seqs: Vec<String> = vec![String::new()];
    for x in a.iter() {
        seqs.push(x.to_string());
        for y in a.iter() {
            seqs.push(format!("{}{}", x, y));
            let thirds: Vec<char> = if thorough() { a.clone() } else { vec!['w', 'c', 'r', 'e'] };
            for z in thirds {
                seqs.push(format!("{}{}{}", x, y, z));
            }
        }
    }
    for s in seqs {
        if let Some((ob, exp, got)) = run_builder_case(&s) {
            return Some(found("builder", &ob, format!("builder seq={}", s), exp, got));
        }
    }
    None
}
fn replay_builder(case: &str) -> Option<String> {
    let seq = case.split_whitespace().find_map(|t| t.strip_prefix("seq=")).unwrap_or("");
    run_builder_case(seq).map(|(ob, exp, got)| found("builder", &ob, case.to_string(), exp, got))
}

// ---------------------------------------------------------------- suite `selector`: every sequence over {0,1,2} up to length 5
fn run_selector_case(vals: &[i64]) -> Option<(String, String, String)> {
    struct Sel;
    impl Selector<St, i64> for Sel {
        fn select(&self, s: &St) -> i64 {
            *s % 10
        }
    }
    let calls: Arc<Mutex<Vec<(i64, Ac)>>> = Arc::new(Mutex::new(vec![]));
    let c2 = calls.clone();
    let sub = SelectorSubscriber::<St, Ac, Sel, i64>::new(Sel, move |v, a| c2.lock().unwrap().push((v, a)));
    let mut exp: Vec<(i64, Ac)> = vec![];
    for (i, v) in vals.iter().enumerate() {
        let state = 10 * (i as i64 + 1) + v;
        if i == 2 {
            // a notification already in flight when the subscription ends is still compared with the value last delivered
            Subscriber::<St, Ac>::on_unsubscribe(&sub);
        }
        sub.on_notify(&state, &(i as Ac));
        if i == 0 || vals[i - 1] != *v {
            exp.push((*v, i as Ac));
        }
    }
    let got = calls.lock().unwrap().clone();
    if got != exp {
        return Some(("O-C16-selector-step".into(), format!("callback invocations {:?}", exp), format!("{:?}", got)));
    }
    None
}
// the same through a running store: subscribe_with_selector, a reducer that sets the state to the action;
// the selected value of the initial state equals the first selected value when vals[0] == 0
fn run_selector_store_case(vals: &[i64]) -> Option<(String, String, String)> {
    struct Sel10;
    impl Selector<St, i64> for Sel10 {
        fn select(&self, s: &St) -> i64 {
            *s % 10
        }
    }
    struct SetRd;
    impl Reducer<St, Ac> for SetRd {
        fn reduce(&self, _s: &St, a: &Ac) -> DispatchOp<St, Ac> {
            DispatchOp::Dispatch(*a, None)
        }
    }
    let store = StoreBuilder::<St, Ac>::new(0).with_reducer(Box::new(SetRd)).build().unwrap();
    let calls: Arc<Mutex<Vec<(i64, Ac)>>> = Arc::new(Mutex::new(vec![]));
    let c2 = calls.clone();
    let _h = store.subscribe_with_selector(Sel10, move |v: i64, a: Ac| c2.lock().unwrap().push((v, a)));
    let mut exp: Vec<(i64, Ac)> = vec![];
    for (i, v) in vals.iter().enumerate() {
        let action = 10 * (i as i64 + 1) + v;
        store.dispatch(action).unwrap();
        if i == 0 || vals[i - 1] != *v {
            exp.push((*v, action));
        }
    }
    store.stop();
    let got = calls.lock().unwrap().clone();
    if got != exp {
        return Some(("O-C16-subscribe_with_selector".into(), format!("callback invocations through a store {:?}", exp), format!("{:?}", got)));
    }
    None
}
fn suite_selector() -> Option<String> {
    for len in 1..=3usize {
        for code in 0..3usize.pow(len as u32) {
            let mut c = code;
            let vals: Vec<i64> = (0..len).map(|_| { let v = (c % 3) as i64; c /= 3; v }).collect();
            if let Some((ob, exp, got)) = run_selector_store_case(&vals) {
                let s: Vec<String> = vals.iter().map(|x| x.to_string()).collect();
                return Some(found("selector", &ob, format!("selector store vals={}", s.join(",")), exp, got));
            }
        }
    }
    for len in 0..=(if thorough() { 8usize } else { 5usize }) {
        for code in 0..3usize.pow(len as u32) {
            let mut c = code;
            let vals: Vec<i64> = (0..len).map(|_| { let v = (c % 3) as i64; c /= 3; v }).collect();
            if let Some((ob, exp, got)) = run_selector_case(&vals) {
                let s: Vec<String> = vals.iter().map(|x| x.to_string()).collect();
                return Some(found("selector", &ob, format!("selector vals={}", s.join(",")), exp, got));
            }
        }
    }
    None
}
fn replay_selector(case: &str) -> Option<String> {
    let vals: Vec<i64> = case.split_whitespace().find_map(|t| t.strip_prefix("vals=")).unwrap_or("").split(',').filter(|x| !x.is_empty()).map(|x| x.parse().unwrap()).collect();
    if case.contains(" store ") {
        return run_selector_store_case(&vals).map(|(ob, exp, got)| found("selector", &ob, case.to_string(), exp, got));
    }
    run_selector_case(&vals).map(|(ob, exp, got)| found("selector", &ob, case.to_string(), exp, got))
}

// ---------------------------------------------------------------- suite `subs`: unsubscribe / shutdown release (C09), droppable (C15)
fn run_subs_case(n: usize, target: usize, droppable: bool) -> Option<(String, String, String)> {
    let log: Log = Arc::new(Mutex::new(vec![]));
    let store = StoreBuilder::<St, Ac>::new(0).with_reducer(Box::new(Rd { id: 0, cfg: RCfg { dispatch: true, effect: 0 }, log: log.clone() })).build().unwrap();
    let mut handles = vec![];
    for i in 0..n {
        handles.push(store.add_subscriber(Arc::new(Sb { id: i, log: log.clone() })));
    }
    store.dispatch(1).unwrap();
    std::thread::sleep(Duration::from_millis(30));
    if target < n {
        handles[target].unsubscribe();
        handles[target].unsubscribe();
    }
    store.dispatch(2).unwrap();
    if droppable {
        drop(DroppableStore::new(store.clone()));
    } else {
        store.stop();
    }
    let got = log.lock().unwrap().clone();
    for i in 0..n {
        let un = got.iter().filter(|e| **e == Ev::Unsub(i)).count();
        if un != 1 {
            return Some((if i == target { "O-C09-unsubscribe-releases-target-once" } else { "O-C09-clear-releases-each-once" }.into(), format!("subscriber {} released exactly once", i), format!("{} times", un)));
        }
        let notes = got.iter().filter(|e| matches!(e, Ev::Notify(j, _, _) if *j == i)).count();
        let exp = if i == target { 1 } else { 2 };
        if notes != exp {
            return Some(("O-C09-unsubscribe-removes-exactly-target".into(), format!("subscriber {} notified {} times", i, exp), format!("{} times", notes)));
        }
    }
    // C03 / C09: the remaining subscribers are still called in registration order for the second action
    let second: Vec<usize> = got.iter().filter_map(|e| match e { Ev::Notify(j, _, a) if *a == 2 => Some(*j), _ => None }).collect();
    let exp_second: Vec<usize> = (0..n).filter(|i| *i != target).collect();
    if second != exp_second {
        return Some(("O-C09-unsubscribe-removes-exactly-target".into(), format!("action 2 notifies subscribers {:?} (registration order, target removed)", exp_second), format!("{:?}", second)));
    }
    if store.dispatch(3).is_ok() {
        return Some((if droppable { "O-C15-drop-is-stop" } else { "O-C04-stop-final" }.into(), "dispatch after shutdown returns Err".into(), "Ok".into()));
    }
    if store.get_state() != mix(mix(0, 1, 0), 2, 0) {
        return Some((if droppable { "O-C15-drop-is-stop" } else { "O-C01-loop-state" }.into(), format!("final state {}", mix(mix(0, 1, 0), 2, 0)), format!("{}", store.get_state())));
    }
    None
}

// a subscriber that unsubscribes itself while it is being notified of action 1 ("once" subscriber): the
// subscribers registered for the whole run must still see every action (C03), and everybody is released once (C09)
struct OnceSb {
    id: usize,
    log: Log,
    me: Arc<Mutex<Option<Box<dyn Subscription>>>>,
}
impl Subscriber<St, Ac> for OnceSb {
    fn on_notify(&self, state: &St, action: &Ac) {
        self.log.lock().unwrap().push(Ev::Notify(self.id, *state, *action));
        let h = self.me.lock().unwrap().take();
        if let Some(h) = h {
            h.unsubscribe();
        }
    }
    fn on_unsubscribe(&self) {
        self.log.lock().unwrap().push(Ev::Unsub(self.id));
    }
}
fn run_subs_selfunsub(n: usize, k: usize) -> Option<(String, String, String)> {
    let log: Log = Arc::new(Mutex::new(vec![]));
    let store = StoreBuilder::<St, Ac>::new(0).with_reducer(Box::new(Rd { id: 0, cfg: RCfg { dispatch: true, effect: 0 }, log: log.clone() })).build().unwrap();
    let me: Arc<Mutex<Option<Box<dyn Subscription>>>> = Arc::new(Mutex::new(None));
    let mut keep = vec![];
    for i in 0..n {
        if i == k {
            let h = store.add_subscriber(Arc::new(OnceSb { id: i, log: log.clone(), me: me.clone() }));
            *me.lock().unwrap() = Some(h);
        } else {
            keep.push(store.add_subscriber(Arc::new(Sb { id: i, log: log.clone() })));
        }
    }
    store.dispatch(1).unwrap();
    store.dispatch(2).unwrap();
    store.stop();
    let got = log.lock().unwrap().clone();
    for i in 0..n {
        let seen: Vec<Ac> = got.iter().filter_map(|e| match e { Ev::Notify(j, _, a) if *j == i => Some(*a), _ => None }).collect();
        if i != k && seen != vec![1, 2] {
            return Some(("O-C03-do_notify-trace".into(), format!("subscriber {} (registered for the whole run) is notified of actions [1, 2] although subscriber {} unsubscribes itself during action 1", i, k), format!("{:?}", seen)));
        }
        if i == k && (seen.is_empty() || seen[0] != 1 || seen.len() > 2) {
            return Some(("O-C03-do_notify-trace".into(), format!("subscriber {} is notified of action 1", i), format!("{:?}", seen)));
        }
        let un = got.iter().filter(|e| **e == Ev::Unsub(i)).count();
        if un != 1 {
            return Some(("O-C09-clear-releases-each-once".into(), format!("subscriber {} released exactly once", i), format!("{} times", un)));
        }
    }
    None
}

// unsubscribe() of one subscriber racing with the release of all subscribers at shutdown: subscriber 0 parks
// inside on_unsubscribe while stop() is releasing; subscriber 1 is unsubscribed (twice) from another thread meanwhile.
// Each subscriber must be released exactly once (C09).
struct ParkSb {
    id: usize,
    log: Log,
    entered: Mutex<std::sync::mpsc::Sender<()>>,
    gate: Mutex<std::sync::mpsc::Receiver<()>>,
}
impl Subscriber<St, Ac> for ParkSb {
    fn on_notify(&self, state: &St, action: &Ac) {
        self.log.lock().unwrap().push(Ev::Notify(self.id, *state, *action));
    }
    fn on_unsubscribe(&self) {
        self.log.lock().unwrap().push(Ev::Unsub(self.id));
        let _ = self.entered.lock().unwrap().send(());
        let _ = self.gate.lock().unwrap().recv_timeout(Duration::from_secs(5));
    }
}
fn run_subs_stoprace() -> Option<(String, String, String)> {
    use std::sync::mpsc;
    let log: Log = Arc::new(Mutex::new(vec![]));
    let store = StoreBuilder::<St, Ac>::new(0).with_reducer(Box::new(Rd { id: 0, cfg: RCfg { dispatch: true, effect: 0 }, log: log.clone() })).build().unwrap();
    let (entered_tx, entered_rx) = mpsc::channel::<()>();
    let (gate_tx, gate_rx) = mpsc::channel::<()>();
    let _h0 = store.add_subscriber(Arc::new(ParkSb { id: 0, log: log.clone(), entered: Mutex::new(entered_tx), gate: Mutex::new(gate_rx) }));
    let h1 = store.add_subscriber(Arc::new(Sb { id: 1, log: log.clone() }));
    let _h2 = store.add_subscriber(Arc::new(Sb { id: 2, log: log.clone() }));
    store.dispatch(1).unwrap();
    let s2 = store.clone();
    let stopper = std::thread::spawn(move || s2.stop());
    if entered_rx.recv_timeout(Duration::from_secs(5)).is_err() {
        let _ = gate_tx.send(());
        let _ = stopper.join();
        return None; // shutdown did not reach the release within the time limit: no verdict
    }
    let (done_tx, done_rx) = mpsc::channel::<()>();
    let unsub = std::thread::spawn(move || {
        h1.unsubscribe();
        h1.unsubscribe();
        let _ = done_tx.send(());
    });
    let _ = done_rx.recv_timeout(Duration::from_millis(500));
    let _ = gate_tx.send(());
    let _ = stopper.join();
    let _ = unsub.join();
    let got = log.lock().unwrap().clone();
    for i in 0..3usize {
        let un = got.iter().filter(|e| **e == Ev::Unsub(i)).count();
        if un != 1 {
            return Some(("O-C09-clear-releases-each-once".into(), format!("subscriber {} released exactly once (unsubscribe of subscriber 1 racing with the release at shutdown)", i), format!("{} times", un)));
        }
    }
    None
}
// unsubscribe() while the action is still in its before_dispatch hooks (the middleware is parked there): the call has
// returned before the notification phase of that action has even looked at the subscriber list, so the subscriber must
// not be notified of it (C09: once unsubscribe() has returned the subscriber receives nothing further)
fn run_subs_midhook() -> Option<(String, String, String)> {
    use std::sync::mpsc;
    struct ParkMw {
        entered: Mutex<mpsc::Sender<()>>,
        gate: Mutex<mpsc::Receiver<()>>,
    }
    impl Middleware<St, Ac> for ParkMw {
        fn before_dispatch(&self, action: &Ac, _s: &St, _d: Arc<dyn Dispatcher<Ac>>) -> Result<MiddlewareOp, StoreError> {
            if *action == 2 {
                let _ = self.entered.lock().unwrap().send(());
                let _ = self.gate.lock().unwrap().recv_timeout(Duration::from_secs(5));
            }
            Ok(MiddlewareOp::ContinueAction)
        }
    }
    let log: Log = Arc::new(Mutex::new(vec![]));
    let (entered_tx, entered_rx) = mpsc::channel::<()>();
    let (gate_tx, gate_rx) = mpsc::channel::<()>();
    let store = StoreBuilder::<St, Ac>::new(0)
        .with_reducer(Box::new(Rd { id: 0, cfg: RCfg { dispatch: true, effect: 0 }, log: log.clone() }))
        .add_middleware(Arc::new(ParkMw { entered: Mutex::new(entered_tx), gate: Mutex::new(gate_rx) }))
        .build()
        .unwrap();
    let leaving = store.add_subscriber(Arc::new(Sb { id: 0, log: log.clone() }));
    let _staying = store.add_subscriber(Arc::new(Sb { id: 1, log: log.clone() }));
    store.dispatch(1).unwrap();
    store.dispatch(2).unwrap();
    if entered_rx.recv_timeout(Duration::from_secs(5)).is_err() {
        let _ = gate_tx.send(());
        store.stop();
        return None;
    }
    leaving.unsubscribe();
    let _ = gate_tx.send(());
    store.dispatch(3).unwrap();
    store.stop();
    let got = log.lock().unwrap().clone();
    let seen = |i: usize| -> Vec<Ac> { got.iter().filter_map(|e| match e { Ev::Notify(j, _, a) if *j == i => Some(*a), _ => None }).collect() };
    if seen(0) != vec![1] {
        return Some(("O-C09-unsubscribe-removes-exactly-target".into(), "subscriber 0, unsubscribed while action 2 was in its before_dispatch hooks, is notified of [1] only".into(), format!("{:?}", seen(0))));
    }
    if seen(1) != vec![1, 2, 3] {
        return Some(("O-C09-unsubscribe-removes-exactly-target".into(), "subscriber 1 (not unsubscribed) is notified of [1, 2, 3]".into(), format!("{:?}", seen(1))));
    }
    None
}
fn suite_subs() -> Option<String> {
    if let Some((ob, exp, got)) = run_subs_midhook() {
        return Some(found("subs", &ob, "subs midhook".to_string(), exp, got));
    }
    for n in 2..=3usize {
        for k in 0..n {
            if let Some((ob, exp, got)) = run_subs_selfunsub(n, k) {
                return Some(found("subs", &ob, format!("subs selfunsub n={} k={}", n, k), exp, got));
            }
        }
    }
    if let Some((ob, exp, got)) = run_subs_stoprace() {
        return Some(found("subs", &ob, "subs stoprace".to_string(), exp, got));
    }
    for n in 1..=4usize {
        for target in 0..=n {
            for droppable in [false, true] {
                if let Some((ob, exp, got)) = run_subs_case(n, target, droppable) {
                    return Some(found("subs", &ob, format!("subs n={} target={} droppable={}", n, target, droppable as u8), exp, got));
                }
            }
        }
    }
    None
}
fn replay_subs(case: &str) -> Option<String> {
    if case.contains("midhook") {
        return run_subs_midhook().map(|(ob, exp, got)| found("subs", &ob, case.to_string(), exp, got));
    }
    if case.contains("stoprace") {
        return run_subs_stoprace().map(|(ob, exp, got)| found("subs", &ob, case.to_string(), exp, got));
    }
    if case.contains("selfunsub") {
        let (mut n, mut k) = (2usize, 0usize);
        for tok in case.split_whitespace() {
            if let Some(v) = tok.strip_prefix("n=") {
                n = v.parse().unwrap();
            } else if let Some(v) = tok.strip_prefix("k=") {
                k = v.parse().unwrap();
            }
        }
        return run_subs_selfunsub(n, k).map(|(ob, exp, got)| found("subs", &ob, case.to_string(), exp, got));
    }
    let (mut n, mut t, mut d) = (1, 0, false);
    for tok in case.split_whitespace() {
        if let Some(v) = tok.strip_prefix("n=") {
            n = v.parse().unwrap();
        } else if let Some(v) = tok.strip_prefix("target=") {
            t = v.parse().unwrap();
        } else if let Some(v) = tok.strip_prefix("droppable=") {
            d = v == "1";
        }
    }
    run_subs_case(n, t, d).map(|(ob, exp, got)| found("subs", &ob, case.to_string(), exp, got))
}


// ---------------------------------------------------------------- suite `block`: BlockOnFull with a stalled reducer (C05, C02)
// case: "block entry=<i|t> cap=<n>"   (i = StoreImpl::dispatch, t = Dispatcher::dispatch on Arc<StoreImpl>)
fn run_block_case(entry: char, cap: usize) -> Option<(String, String, String)> {
    use std::sync::mpsc;
    let (gate_tx, gate_rx) = mpsc::channel::<()>();
    let gate_rx = Arc::new(Mutex::new(gate_rx));
    let (entered_tx, entered_rx) = mpsc::channel::<()>();
    let entered_tx = Mutex::new(entered_tx);
    let reduced: Arc<Mutex<Vec<Ac>>> = Arc::new(Mutex::new(vec![]));
    let r2 = reduced.clone();
    let g2 = gate_rx.clone();
    let store = StoreBuilder::<St, Ac>::new(0)
        .with_capacity(cap)
        .with_reducer(Box::new(crate::reducer::FnReducer::from(move |s: &St, a: &Ac| {
            if *a == 0 {
                let _ = entered_tx.lock().unwrap().send(());
                let _ = g2.lock().unwrap().recv_timeout(Duration::from_secs(10));
            }
            r2.lock().unwrap().push(*a);
            DispatchOp::Dispatch(mix(*s, *a, 0), None)
        })))
        .build()
        .unwrap();
    let send = move |st: &Arc<StoreImpl<St, Ac>>, a: Ac| -> bool {
        if entry == 't' {
            <Arc<StoreImpl<St, Ac>> as Dispatcher<Ac>>::dispatch(st, a).is_ok()
        } else {
            StoreImpl::dispatch(&**st, a).is_ok()
        }
    };
    // action 0 is taken by the reducer and parks it
    if !send(&store, 0) {
        return Some(("O-C02-dispatch-open".into(), "dispatch Ok on an open store".into(), "Err".into()));
    }
    if entered_rx.recv_timeout(Duration::from_secs(10)).is_err() {
        return Some(("O-C01-loop-state".into(), "the reducer starts reducing action 0".into(), "it did not within 10 s".into()));
    }
    // `cap` more actions fill the queue without waiting
    for a in 1..=cap as Ac {
        let t0 = Instant::now();
        let ok = send(&store, a);
        if !ok || t0.elapsed() > Duration::from_millis(5000) {
            return Some(("O-C05-send-block-lossless".into(), format!("dispatch #{} into a queue with room returns Ok at once", a), format!("ok={} after {:?}", ok, t0.elapsed())));
        }
    }
    // one more must wait: the number of accepted-but-not-taken actions never exceeds the capacity
    let returned = Arc::new(AtomicUsize::new(0));
    let ret2 = returned.clone();
    let st2 = store.clone();
    let extra = cap as Ac + 1;
    let h = std::thread::spawn(move || {
        let ok = send(&st2, extra);
        ret2.store(if ok { 1 } else { 2 }, Ordering::SeqCst);
    });
    std::thread::sleep(Duration::from_millis(300));
    let early = returned.load(Ordering::SeqCst);
    let _ = gate_tx.send(());
    let _ = h.join();
    // a second action dispatched after the blocked one returned must be reduced after it
    let _ = send(&store, extra + 1);
    store.stop();
    if early != 0 {
        return Some(("O-C05-send-block-lossless".into(), format!("with the reducer stalled and {} actions queued (capacity {}), one more dispatch waits", cap, cap), format!("it returned {} while the queue was full", if early == 1 { "Ok" } else { "Err" })));
    }
    let got = reduced.lock().unwrap().clone();
    let exp: Vec<Ac> = (0..=extra + 1).collect();
    if got != exp {
        return Some(("O-C02-send-fifo".into(), format!("reduce order {:?}", exp), format!("{:?}", got)));
    }
    None
}
// close() racing with a late dispatch while the queue is full and the reducer is parked (BlockOnFull):
// every dispatch that returned Ok must be reduced (C05 lossless, C04: nothing is accepted behind the Exit marker)
fn run_block_closerace(cap: usize) -> Option<(String, String, String)> {
    use std::sync::mpsc;
    let (gate_tx, gate_rx) = mpsc::channel::<()>();
    let gate_rx = Arc::new(Mutex::new(gate_rx));
    let (entered_tx, entered_rx) = mpsc::channel::<()>();
    let entered_tx = Mutex::new(entered_tx);
    let reduced: Arc<Mutex<Vec<Ac>>> = Arc::new(Mutex::new(vec![]));
    let r2 = reduced.clone();
    let g2 = gate_rx.clone();
    let store = StoreBuilder::<St, Ac>::new(0)
        .with_capacity(cap)
        .with_reducer(Box::new(crate::reducer::FnReducer::from(move |s: &St, a: &Ac| {
            if *a == 0 {
                let _ = entered_tx.lock().unwrap().send(());
                let _ = g2.lock().unwrap().recv_timeout(Duration::from_secs(10));
            }
            r2.lock().unwrap().push(*a);
            DispatchOp::Dispatch(mix(*s, *a, 0), None)
        })))
        .build()
        .unwrap();
    if store.dispatch(0).is_err() || entered_rx.recv_timeout(Duration::from_secs(10)).is_err() {
        let _ = gate_tx.send(());
        store.stop();
        return None;
    }
    for a in 1..=cap as Ac {
        let _ = store.dispatch(a);
    }
    let s1 = store.clone();
    let closer = std::thread::spawn(move || s1.close());
    std::thread::sleep(Duration::from_millis(300));
    let s2 = store.clone();
    let late = std::thread::spawn(move || s2.dispatch(1000).is_ok());
    std::thread::sleep(Duration::from_millis(300));
    let _ = gate_tx.send(());
    let _ = closer.join();
    let late_ok = late.join().unwrap_or(false);
    store.stop();
    let got = reduced.lock().unwrap().clone();
    let mut exp: Vec<Ac> = (0..=cap as Ac).collect();
    if late_ok {
        exp.push(1000);
    }
    let mut got_sorted = got.clone();
    got_sorted.sort();
    if got_sorted != exp {
        return Some(("O-C05-send-block-lossless".into(), format!("every dispatch that returned Ok is reduced once: {:?} (late dispatch returned {})", exp, if late_ok { "Ok" } else { "Err" }), format!("{:?}", got)));
    }
    None
}
// a dispatch through the `Store` trait from inside a subscriber callback (the reducer context, a pool thread), with
// every pool worker busy: once it has returned Ok the action is in the queue, so an action dispatched afterwards by
// another thread is reduced after it (C02: real-time order, every entry point)
fn run_block_reentrant() -> Option<(String, String, String)> {
    use crate::store::Store;
    use std::sync::mpsc;
    use std::sync::Condvar;
    struct Re {
        store: Mutex<Option<std::sync::Weak<StoreImpl<St, Ac>>>>,
        done: Mutex<mpsc::Sender<bool>>,
    }
    impl Subscriber<St, Ac> for Re {
        fn on_notify(&self, _s: &St, a: &Ac) {
            if *a == 0 {
                let st = self.store.lock().unwrap().as_ref().and_then(|w| w.upgrade());
                if let Some(st) = st {
                    let ok = <StoreImpl<St, Ac> as Store<St, Ac>>::dispatch(&*st, 1).is_ok();
                    let _ = self.done.lock().unwrap().send(ok);
                }
            }
        }
    }
    let reduced: Arc<Mutex<Vec<Ac>>> = Arc::new(Mutex::new(vec![]));
    let r2 = reduced.clone();
    let store = StoreBuilder::<St, Ac>::new(0)
        .with_capacity(16)
        .with_reducer(Box::new(crate::reducer::FnReducer::from(move |s: &St, a: &Ac| {
            r2.lock().unwrap().push(*a);
            DispatchOp::Dispatch(mix(*s, *a, 0), None)
        })))
        .build()
        .unwrap();
    let (done_tx, done_rx) = mpsc::channel::<bool>();
    let re = Arc::new(Re { store: Mutex::new(Some(Arc::downgrade(&store))), done: Mutex::new(done_tx) });
    let _h = store.add_subscriber(re.clone());
    // keep every other pool worker busy until the gate opens
    let gate = Arc::new((Mutex::new(false), Condvar::new()));
    for _ in 0..2048 {
        let g = gate.clone();
        <Arc<StoreImpl<St, Ac>> as Dispatcher<Ac>>::dispatch_task(&store, Box::new(move || {
            let (m, cv) = &*g;
            let mut open = m.lock().unwrap();
            while !*open {
                let (o, _) = cv.wait_timeout(open, Duration::from_secs(20)).unwrap();
                open = o;
                if !*open {
                    break;
                }
            }
        }));
    }
    let open_gate = |gate: &Arc<(Mutex<bool>, Condvar)>| {
        let (m, cv) = &**gate;
        *m.lock().unwrap() = true;
        cv.notify_all();
    };
    let _ = store.dispatch(0);
    let inner_ok = match done_rx.recv_timeout(Duration::from_secs(10)) {
        Ok(ok) => ok,
        Err(_) => {
            open_gate(&gate);
            store.stop();
            return None; // the callback did not get that far within the time limit: no verdict
        }
    };
    // dispatch(1) has returned; now a later dispatch from this thread
    let _ = store.dispatch(2);
    let t0 = Instant::now();
    while !reduced.lock().unwrap().contains(&2) && t0.elapsed() < Duration::from_secs(5) {
        std::thread::sleep(Duration::from_millis(10));
    }
    open_gate(&gate);
    let t1 = Instant::now();
    while reduced.lock().unwrap().len() < 3 && t1.elapsed() < Duration::from_secs(5) {
        std::thread::sleep(Duration::from_millis(10));
    }
    *re.store.lock().unwrap() = None;
    store.stop();
    let got = reduced.lock().unwrap().clone();
    if inner_ok && got != vec![0, 1, 2] {
        return Some(("O-C02-store-dispatch-open".into(), "Store::dispatch(1) from a subscriber callback returned Ok before another thread dispatched 2: reduce order [0, 1, 2]".into(), format!("{:?}", got)));
    }
    None
}
// an Effect::Action emitted while the queue is full and a producer is waiting for room (BlockOnFull): the reducer must
// keep draining -- the follow-up action is dispatched by a worker, not by the reducer itself -- so the waiting producer
// resumes and every accepted action is reduced (C05, C11)
fn run_block_effectaction(cap: usize) -> Option<(String, String, String)> {
    use std::sync::mpsc;
    let (gate_tx, gate_rx) = mpsc::channel::<()>();
    let gate_rx = Mutex::new(gate_rx);
    let (entered_tx, entered_rx) = mpsc::channel::<()>();
    let entered_tx = Mutex::new(entered_tx);
    let reduced: Arc<Mutex<Vec<Ac>>> = Arc::new(Mutex::new(vec![]));
    let r2 = reduced.clone();
    let store = StoreBuilder::<St, Ac>::new(0)
        .with_capacity(cap)
        .with_reducer(Box::new(crate::reducer::FnReducer::from(move |s: &St, a: &Ac| {
            if *a == 0 {
                let _ = entered_tx.lock().unwrap().send(());
                let _ = gate_rx.lock().unwrap().recv_timeout(Duration::from_secs(10));
            }
            r2.lock().unwrap().push(*a);
            let eff = if *a == 0 { Some(Effect::Action(500)) } else { None };
            DispatchOp::Dispatch(mix(*s, *a, 0), eff)
        })))
        .build()
        .unwrap();
    if store.dispatch(0).is_err() || entered_rx.recv_timeout(Duration::from_secs(10)).is_err() {
        let _ = gate_tx.send(());
        store.stop();
        return None;
    }
    for a in 1..=cap as Ac {
        let _ = store.dispatch(a);
    }
    let s2 = store.clone();
    let (done_tx, done_rx) = mpsc::channel::<bool>();
    let extra = cap as Ac + 1;
    let producer = std::thread::spawn(move || {
        let _ = done_tx.send(s2.dispatch(extra).is_ok());
    });
    std::thread::sleep(Duration::from_millis(200));
    let _ = gate_tx.send(());
    let resumed = done_rx.recv_timeout(Duration::from_secs(8)).unwrap_or(false);
    let t0 = Instant::now();
    let want = cap + 3;
    while reduced.lock().unwrap().len() < want && t0.elapsed() < Duration::from_secs(8) {
        std::thread::sleep(Duration::from_millis(10));
    }
    let got = reduced.lock().unwrap().clone();
    if !resumed || got.len() < want {
        // the store is wedged: leave it (stop() would hang behind the dispatch lock); the threads die with the process
        std::mem::forget(producer);
        return Some(("O-C11-do_effect-spawn".into(), format!("the producer waiting on the full queue resumes and all {} actions (0, 1..={}, {}, and the follow-up 500) are reduced", want, cap, extra), format!("producer resumed: {}, reduced so far {:?}", resumed, got)));
    }
    let _ = producer.join();
    store.stop();
    None
}
fn suite_block() -> Option<String> {
    for cap in [1usize, 3] {
        if let Some((ob, exp, got)) = run_block_effectaction(cap) {
            return Some(found("block", &ob, format!("block effectaction cap={}", cap), exp, got));
        }
    }
    if let Some((ob, exp, got)) = run_block_reentrant() {
        return Some(found("block", &ob, "block reentrant".to_string(), exp, got));
    }
    for cap in [1usize, 2] {
        if let Some((ob, exp, got)) = run_block_closerace(cap) {
            return Some(found("block", &ob, format!("block closerace cap={}", cap), exp, got));
        }
    }
    for entry in ['i', 't'] {
        for cap in [1usize, 2, 4] {
            if let Some((ob, exp, got)) = run_block_case(entry, cap) {
                return Some(found("block", &ob, format!("block entry={} cap={}", entry, cap), exp, got));
            }
        }
    }
    None
}
fn replay_block(case: &str) -> Option<String> {
    if case.contains("effectaction") {
        let cap: usize = case.split_whitespace().find_map(|t| t.strip_prefix("cap=")).unwrap_or("1").parse().unwrap();
        return run_block_effectaction(cap).map(|(ob, exp, got)| found("block", &ob, case.to_string(), exp, got));
    }
    if case.contains("reentrant") {
        return run_block_reentrant().map(|(ob, exp, got)| found("block", &ob, case.to_string(), exp, got));
    }
    if case.contains("closerace") {
        let cap: usize = case.split_whitespace().find_map(|t| t.strip_prefix("cap=")).unwrap_or("1").parse().unwrap();
        return run_block_closerace(cap).map(|(ob, exp, got)| found("block", &ob, case.to_string(), exp, got));
    }
    let (mut e, mut cap) = ('i', 1);
    for tok in case.split_whitespace() {
        if let Some(v) = tok.strip_prefix("entry=") {
            e = v.chars().next().unwrap();
        } else if let Some(v) = tok.strip_prefix("cap=") {
            cap = v.parse().unwrap();
        }
    }
    run_block_case(e, cap).map(|(ob, exp, got)| found("block", &ob, case.to_string(), exp, got))
}

// ---------------------------------------------------------------- suite `twostores`: one store operated from a callback of another (C19, C04)
// case: "twostores same_name=<0|1>"
fn run_twostores_case(same_name: bool) -> Option<(String, String, String)> {
    use std::sync::mpsc;
    let log_b: Log = Arc::new(Mutex::new(vec![]));
    let (gate_tx, gate_rx) = mpsc::channel::<()>();
    let gate_rx = Mutex::new(gate_rx);
    let lb = log_b.clone();
    let name_a = "store".to_string();
    let name_b = if same_name { "store".to_string() } else { "other".to_string() };
    let b = StoreBuilder::<St, Ac>::new(0)
        .with_name(name_b)
        .with_reducer(Box::new(crate::reducer::FnReducer::from(move |s: &St, a: &Ac| {
            if *a == 1 {
                let _ = gate_rx.lock().unwrap().recv_timeout(Duration::from_secs(10));
            }
            lb.lock().unwrap().push(Ev::Reduce(0, *s, *a));
            DispatchOp::Dispatch(s + a, None)
        })))
        .build()
        .unwrap();
    let _ = b.add_subscriber(Arc::new(Sb { id: 0, log: log_b.clone() }));
    for a in 1..=3 {
        b.dispatch(a).unwrap();
    }
    // store A: its subscriber opens B's gate, stops B and looks at B when stop() returns
    struct Stopper {
        b: Arc<StoreImpl<St, Ac>>,
        gate: Mutex<mpsc::Sender<()>>,
        log_b: Log,
        out: Mutex<mpsc::Sender<(St, usize, usize)>>,
    }
    impl Subscriber<St, Ac> for Stopper {
        fn on_notify(&self, _s: &St, _a: &Ac) {
            let _ = self.gate.lock().unwrap().send(());
            self.b.stop();
            let l = self.log_b.lock().unwrap();
            let notes = l.iter().filter(|e| matches!(e, Ev::Notify(..))).count();
            let unsub = l.iter().filter(|e| matches!(e, Ev::Unsub(..))).count();
            let _ = self.out.lock().unwrap().send((self.b.get_state(), notes, unsub));
        }
    }
    let (out_tx, out_rx) = mpsc::channel();
    let a = StoreBuilder::<St, Ac>::new(0)
        .with_name(name_a)
        .with_reducer(Box::new(crate::reducer::FnReducer::from(|s: &St, a: &Ac| DispatchOp::Dispatch(s + a, None))))
        .build()
        .unwrap();
    let _ = a.add_subscriber(Arc::new(Stopper { b: b.clone(), gate: Mutex::new(gate_tx), log_b: log_b.clone(), out: Mutex::new(out_tx) }));
    a.dispatch(7).unwrap();
    let seen = out_rx.recv_timeout(Duration::from_secs(20));
    a.stop();
    b.stop();
    match seen {
        Ok((state, notes, unsub)) => {
            if (state, notes, unsub) != (6, 3, 1) {
                return Some(("O-C04-stop-exit-then-join".into(), "when stop() of store B returns (called from a subscriber of store A): B's state 6, 3 notifications, subscriber released".into(), format!("state {}, {} notifications, {} released", state, notes, unsub)));
            }
        }
        Err(_) => return Some(("O-C04-stop-exit-then-join".into(), "stop() of store B called from a subscriber of store A returns".into(), "no report within 20 s".into())),
    }
    if a.get_state() != 7 {
        return Some(("O-C19-do_reduce-frame".into(), "store A's state is 7".into(), format!("{}", a.get_state())));
    }
    None
}
// store A keeps many long-running tasks going; store B's own task must still run (C19: no shared workers)
fn run_twostores_sharedpool() -> Option<(String, String, String)> {
    use std::sync::mpsc;
    use std::sync::Condvar;
    let mk = |name: &str| {
        StoreBuilder::<St, Ac>::new(0)
            .with_name(name.to_string())
            .with_reducer(Box::new(crate::reducer::FnReducer::from(|s: &St, a: &Ac| DispatchOp::Dispatch(s + a, None))))
            .build()
            .unwrap()
    };
    let a = mk("store");
    let b = mk("store");
    let gate = Arc::new((Mutex::new(false), Condvar::new()));
    for _ in 0..2048 {
        let g = gate.clone();
        <Arc<StoreImpl<St, Ac>> as Dispatcher<Ac>>::dispatch_task(&a, Box::new(move || {
            let (m, cv) = &*g;
            let mut open = m.lock().unwrap();
            while !*open {
                let (o, t) = cv.wait_timeout(open, Duration::from_secs(20)).unwrap();
                open = o;
                if t.timed_out() {
                    break;
                }
            }
        }));
    }
    let (tx, rx) = mpsc::channel::<()>();
    let tx = Mutex::new(tx);
    <Arc<StoreImpl<St, Ac>> as Dispatcher<Ac>>::dispatch_task(&b, Box::new(move || {
        let _ = tx.lock().unwrap().send(());
    }));
    let ran = rx.recv_timeout(Duration::from_secs(5)).is_ok();
    // a thunk of B, and an action of B, while A is still busy
    let (tx2, rx2) = mpsc::channel::<bool>();
    let tx2 = Mutex::new(tx2);
    <Arc<StoreImpl<St, Ac>> as Dispatcher<Ac>>::dispatch_thunk(&b, Box::new(move |d| {
        let _ = tx2.lock().unwrap().send(d.dispatch(5).is_ok());
    }));
    let thunk_ran = rx2.recv_timeout(Duration::from_secs(5)).unwrap_or(false);
    {
        let (m, cv) = &*gate;
        *m.lock().unwrap() = true;
        cv.notify_all();
    }
    b.stop();
    a.stop();
    if !ran {
        return Some(("O-C11-dispatch_task-once".into(), "a task handed to store B runs although 2048 tasks of store A are blocked".into(), "it did not run within 5 s".into()));
    }
    if !thunk_ran || b.get_state() != 5 {
        return Some(("O-C11-dispatch_thunk-once".into(), "a thunk handed to store B runs and its dispatch(5) is reduced although 2048 tasks of store A are blocked".into(), format!("thunk ran: {}, B's state {}", thunk_ran, b.get_state())));
    }
    None
}
// two stores share one subscriber object (with its own internal mutex); a notification of store `control` makes the shared
// subscriber unsubscribe itself from store `feed` while `feed` is in the middle of a notification round: both stores must
// keep processing actions (C19: a notification in progress on one store cannot wedge another one)
fn run_twostores_sharedsub() -> Option<(String, String, String)> {
    use std::sync::mpsc;
    struct Inner {
        feed_subscription: Option<Box<dyn Subscription>>,
    }
    struct Bridge {
        inner: Mutex<Inner>,
        stop_in_progress: Mutex<mpsc::Sender<()>>,
        feed_is_notifying: Mutex<mpsc::Receiver<()>>,
    }
    impl Subscriber<St, Ac> for Bridge {
        fn on_notify(&self, _s: &St, a: &Ac) {
            let mut inner = self.inner.lock().unwrap();
            if *a == 1000 {
                let _ = self.stop_in_progress.lock().unwrap().send(());
                let _ = self.feed_is_notifying.lock().unwrap().recv_timeout(Duration::from_secs(5));
                if let Some(h) = inner.feed_subscription.take() {
                    h.unsubscribe();
                }
            }
        }
    }
    struct Probe {
        feed_is_notifying: Mutex<mpsc::Sender<()>>,
    }
    impl Subscriber<St, Ac> for Probe {
        fn on_notify(&self, _s: &St, a: &Ac) {
            if *a == 7 {
                let _ = self.feed_is_notifying.lock().unwrap().send(());
            }
        }
    }
    let mk = || {
        StoreBuilder::<St, Ac>::new(0)
            .with_reducer(Box::new(crate::reducer::FnReducer::from(|s: &St, a: &Ac| DispatchOp::Dispatch(s + a, None))))
            .build()
            .unwrap()
    };
    let feed = mk();
    let control = mk();
    let (stop_tx, stop_rx) = mpsc::channel::<()>();
    let (not_tx, not_rx) = mpsc::channel::<()>();
    let bridge = Arc::new(Bridge { inner: Mutex::new(Inner { feed_subscription: None }), stop_in_progress: Mutex::new(stop_tx), feed_is_notifying: Mutex::new(not_rx) });
    let _p = feed.add_subscriber(Arc::new(Probe { feed_is_notifying: Mutex::new(not_tx) }));
    let fh = feed.add_subscriber(bridge.clone());
    bridge.inner.lock().unwrap().feed_subscription = Some(fh);
    let _c = control.add_subscriber(bridge.clone());
    control.dispatch(1000).unwrap();
    if stop_rx.recv_timeout(Duration::from_secs(5)).is_err() {
        feed.stop();
        control.stop();
        return None;
    }
    feed.dispatch(7).unwrap();
    control.dispatch(1).unwrap();
    feed.dispatch(1).unwrap();
    let wait = |st: &Arc<StoreImpl<St, Ac>>, want: St| -> bool {
        let t0 = Instant::now();
        while st.get_state() != want && t0.elapsed() < Duration::from_secs(8) {
            std::thread::sleep(Duration::from_millis(5));
        }
        st.get_state() == want
    };
    let control_ok = wait(&control, 1001);
    let feed_ok = wait(&feed, 8);
    if !control_ok || !feed_ok {
        // wedged stores are left behind (stop() would hang); the threads die with the process
        let got = format!("control state {}, feed state {}", control.get_state(), feed.get_state());
        std::mem::forget(feed);
        std::mem::forget(control);
        return Some(("O-C19-do_notify-frame".into(), "both stores keep processing actions (control reaches 1001, feed reaches 8) although they share a subscriber that unsubscribes from feed inside a notification of control".into(), got));
    }
    feed.stop();
    control.stop();
    None
}
// the same subscriber object registered with two stores: unsubscribing it from one of them tells it so exactly once,
// whatever the other store holds (C19 / C09)
fn run_twostores_sharedrelease() -> Option<(String, String, String)> {
    let mk = || {
        StoreBuilder::<St, Ac>::new(0)
            .with_name("twin".to_string())
            .with_reducer(Box::new(crate::reducer::FnReducer::from(|s: &St, a: &Ac| DispatchOp::Dispatch(s + a, None))))
            .build()
            .unwrap()
    };
    for shared in [false, true] {
        let a = mk();
        let b = mk();
        let log: Log = Arc::new(Mutex::new(vec![]));
        let sub: Arc<dyn Subscriber<St, Ac> + Send + Sync> = Arc::new(Sb { id: 0, log: log.clone() });
        let ha = a.add_subscriber(sub.clone());
        let _hb = if shared { Some(b.add_subscriber(sub.clone())) } else { None };
        drop(sub);
        ha.unsubscribe();
        let released = log.lock().unwrap().iter().filter(|e| matches!(e, Ev::Unsub(0))).count();
        a.stop();
        b.stop();
        if released != 1 {
            return Some(("O-C09-unsubscribe-releases-target-once".into(), format!("unsubscribe() from store A releases the subscriber exactly once (also registered with store B: {})", shared), format!("{} times", released)));
        }
    }
    None
}
fn suite_twostores() -> Option<String> {
    if let Some((ob, exp, got)) = run_twostores_sharedrelease() {
        return Some(found("twostores", &ob, "twostores sharedrelease".to_string(), exp, got));
    }
    if let Some((ob, exp, got)) = run_twostores_sharedsub() {
        return Some(found("twostores", &ob, "twostores sharedsub".to_string(), exp, got));
    }
    if let Some((ob, exp, got)) = run_twostores_sharedpool() {
        return Some(found("twostores", &ob, "twostores sharedpool".to_string(), exp, got));
    }
    for same in [true, false] {
        if let Some((ob, exp, got)) = run_twostores_case(same) {
            return Some(found("twostores", &ob, format!("twostores same_name={}", same as u8), exp, got));
        }
    }
    None
}
fn replay_twostores(case: &str) -> Option<String> {
    if case.contains("sharedrelease") {
        return run_twostores_sharedrelease().map(|(ob, exp, got)| found("twostores", &ob, case.to_string(), exp, got));
    }
    if case.contains("sharedsub") {
        return run_twostores_sharedsub().map(|(ob, exp, got)| found("twostores", &ob, case.to_string(), exp, got));
    }
    if case.contains("sharedpool") {
        return run_twostores_sharedpool().map(|(ob, exp, got)| found("twostores", &ob, case.to_string(), exp, got));
    }
    let same = case.contains("same_name=1");
    run_twostores_case(same).map(|(ob, exp, got)| found("twostores", &ob, case.to_string(), exp, got))
}

// ---------------------------------------------------------------- suite `channeled`: subscribed_with end to end (C10)
// case: "channeled policy=<B|O|L> cap=<n> teardown=<u|s>"
fn run_channeled_case(policy: char, cap: usize, teardown: char) -> Option<(String, String, String)> {
    use std::sync::mpsc;
    let pol = match policy {
        'O' => BackpressurePolicy::DropOldest,
        'L' => BackpressurePolicy::DropLatest,
        _ => BackpressurePolicy::BlockOnFull,
    };
    struct Gated {
        got: Arc<Mutex<Vec<(St, Ac)>>>,
        gate: Mutex<mpsc::Receiver<()>>,
        entered: Mutex<mpsc::Sender<()>>,
        thread: Arc<Mutex<Option<std::thread::ThreadId>>>,
    }
    impl Subscriber<St, Ac> for Gated {
        fn on_notify(&self, s: &St, a: &Ac) {
            *self.thread.lock().unwrap() = Some(std::thread::current().id());
            if *a == 1 {
                let _ = self.entered.lock().unwrap().send(());
                let _ = self.gate.lock().unwrap().recv_timeout(Duration::from_secs(10));
            }
            self.got.lock().unwrap().push((*s, *a));
        }
    }
    struct Direct {
        got: Arc<Mutex<Vec<(St, Ac)>>>,
        thread: Arc<Mutex<Option<std::thread::ThreadId>>>,
        seen: Mutex<mpsc::Sender<Ac>>,
    }
    impl Subscriber<St, Ac> for Direct {
        fn on_notify(&self, s: &St, a: &Ac) {
            *self.thread.lock().unwrap() = Some(std::thread::current().id());
            self.got.lock().unwrap().push((*s, *a));
            let _ = self.seen.lock().unwrap().send(*a);
        }
    }
    let store = StoreBuilder::<St, Ac>::new(0)
        .with_reducer(Box::new(crate::reducer::FnReducer::from(|s: &St, a: &Ac| DispatchOp::Dispatch(mix(*s, *a, 0), None))))
        .build()
        .unwrap();
    let got_c = Arc::new(Mutex::new(vec![]));
    let got_d = Arc::new(Mutex::new(vec![]));
    let (gate_tx, gate_rx) = mpsc::channel();
    let (ent_tx, ent_rx) = mpsc::channel();
    let (seen_tx, seen_rx) = mpsc::channel();
    let th_c = Arc::new(Mutex::new(None));
    let th_d = Arc::new(Mutex::new(None));
    // the channeled subscriber is registered first: the direct one sees an action after it was forwarded
    let sub = match store.subscribed_with(cap, pol, Box::new(Gated { got: got_c.clone(), gate: Mutex::new(gate_rx), entered: Mutex::new(ent_tx), thread: th_c.clone() })) {
        Ok(s) => s,
        Err(_) => return Some(("O-C10-subscribed_with-thread-and-registration".into(), "subscribed_with succeeds".into(), "Err".into())),
    };
    let _d = store.add_subscriber(Arc::new(Direct { got: got_d.clone(), thread: th_d.clone(), seen: Mutex::new(seen_tx) }));
    // n notifications: the first parks the delivery thread, the others queue up behind it
    let n: Ac = if policy == 'B' { cap as Ac + 1 } else { 2 * cap as Ac + 2 };
    for a in 1..=n {
        if store.dispatch(a).is_err() {
            return Some(("O-C02-dispatch-open".into(), "dispatch Ok".into(), "Err".into()));
        }
        if a == 1 && ent_rx.recv_timeout(Duration::from_secs(10)).is_err() {
            return Some(("O-C10-delivery-loop".into(), "the delivery thread calls the subscriber for the first notification".into(), "not within 10 s".into()));
        }
    }
    // a stalled subscriber never stalls reducing (drop policies; blocking policy: queue has room for n-1)
    for a in 1..=n {
        match seen_rx.recv_timeout(Duration::from_secs(5)) {
            Ok(x) if x == a => {}
            other => return Some(("O-C06-send-never-blocks".into(), format!("the direct subscriber sees action {} while the channeled one is stalled", a), format!("{:?}", other))),
        }
    }
    // teardown on another thread while the queue is still full; it must wait for the queued items
    let done = Arc::new(AtomicUsize::new(0));
    let d2 = done.clone();
    let st2 = store.clone();
    let h = std::thread::spawn(move || {
        if teardown == 'u' { sub.unsubscribe(); } else { st2.stop(); }
        d2.store(1, Ordering::SeqCst);
    });
    std::thread::sleep(Duration::from_millis(150));
    let early = done.load(Ordering::SeqCst);
    let before_gate = got_c.lock().unwrap().len();
    let _ = gate_tx.send(());
    let _ = h.join();
    let at_return: Vec<(St, Ac)> = got_c.lock().unwrap().clone();
    store.stop();
    std::thread::sleep(Duration::from_millis(50));
    let after: Vec<(St, Ac)> = got_c.lock().unwrap().clone();
    let direct: Vec<(St, Ac)> = got_d.lock().unwrap().clone();
    // expected: the first notification, then what the policy keeps of the others
    let rest: Vec<(St, Ac)> = direct.iter().filter(|(_, a)| *a >= 2).cloned().collect();
    let kept: Vec<(St, Ac)> = match policy {
        'O' => rest[rest.len() - cap.min(rest.len())..].to_vec(),
        'L' => rest[..cap.min(rest.len())].to_vec(),
        _ => rest.clone(),
    };
    let mut exp = vec![direct[0]];
    exp.extend(kept);
    if early != 0 || before_gate != 0 {
        return Some(("O-C10-release-order".into(), "unsubscribe()/stop() waits for the delivery thread (which is still inside the first callback)".into(), format!("returned early={} delivered_before_gate={}", early, before_gate)));
    }
    if at_return != exp {
        let ob = if policy == 'B' { "O-C10-delivery-loop" } else { "O-C10-release-touches-nothing-queued" };
        return Some((ob.into(), format!("delivered when {} returned: {:?}", if teardown == 'u' { "unsubscribe()" } else { "stop()" }, exp), format!("{:?}", at_return)));
    }
    if after != at_return {
        return Some(("O-C10-forward-after-release".into(), "nothing is delivered after the release returned".into(), format!("{:?}", after)));
    }
    if *th_c.lock().unwrap() == *th_d.lock().unwrap() {
        return Some(("O-C10-forward-one-clone".into(), "the channeled subscriber runs on its own thread, not in the reducer context".into(), "same thread as the direct subscriber".into()));
    }
    None
}

// blocking policy, more notifications than the subscription queue holds while the subscriber is parked:
// the reducer waits (it is never allowed to drop), and in the end the channeled subscriber has seen
// exactly the stream of a direct subscriber
fn run_channeled_overfill(cap: usize, default_api: bool) -> Option<(String, String, String)> {
    use std::sync::mpsc;
    struct Gated {
        got: Arc<Mutex<Vec<(St, Ac)>>>,
        gate: Mutex<mpsc::Receiver<()>>,
        entered: Mutex<mpsc::Sender<()>>,
    }
    impl Subscriber<St, Ac> for Gated {
        fn on_notify(&self, s: &St, a: &Ac) {
            if *a == 1 {
                let _ = self.entered.lock().unwrap().send(());
                let _ = self.gate.lock().unwrap().recv_timeout(Duration::from_secs(10));
            }
            self.got.lock().unwrap().push((*s, *a));
        }
    }
    let store = StoreBuilder::<St, Ac>::new(0)
        .with_capacity(64)
        .with_reducer(Box::new(crate::reducer::FnReducer::from(|s: &St, a: &Ac| DispatchOp::Dispatch(mix(*s, *a, 0), None))))
        .build()
        .unwrap();
    let got_c = Arc::new(Mutex::new(vec![]));
    let direct: Arc<Mutex<Vec<Ev>>> = Arc::new(Mutex::new(vec![]));
    let (gate_tx, gate_rx) = mpsc::channel();
    let (ent_tx, ent_rx) = mpsc::channel();
    let gated = Box::new(Gated { got: got_c.clone(), gate: Mutex::new(gate_rx), entered: Mutex::new(ent_tx) });
    let sub = if default_api { store.subscribed(gated) } else { store.subscribed_with(cap, BackpressurePolicy::BlockOnFull, gated) };
    let sub = match sub {
        Ok(s) => s,
        Err(_) => return Some(("O-C10-subscribed_with-thread-and-registration".into(), "subscribed succeeds".into(), "Err".into())),
    };
    let _d = store.add_subscriber(Arc::new(Sb { id: 0, log: direct.clone() }));
    let eff_cap = if default_api { 16 } else { cap };
    let n = eff_cap as Ac + 4;
    for a in 1..=n {
        store.dispatch(a).unwrap();
        if a == 1 && ent_rx.recv_timeout(Duration::from_secs(10)).is_err() {
            return Some(("O-C10-delivery-loop".into(), "the delivery thread calls the subscriber for the first notification".into(), "not within 10 s".into()));
        }
    }
    std::thread::sleep(Duration::from_millis(300));
    let _ = gate_tx.send(());
    store.stop();
    sub.unsubscribe();
    let exp: Vec<(St, Ac)> = direct.lock().unwrap().iter().filter_map(|e| if let Ev::Notify(_, s, a) = e { Some((*s, *a)) } else { None }).collect();
    let got = got_c.lock().unwrap().clone();
    if got != exp || exp.len() != n as usize {
        return Some(("O-C10-forward-one-clone".into(), format!("a blocking channeled subscriber sees exactly what a direct subscriber sees: {:?}", exp), format!("{:?}", got)));
    }
    None
}
// unsubscribe() of a lagging channeled subscriber B called from the callback (delivery thread) of another channeled
// subscriber A of the same store: when it returns everything queued for B has been delivered, nothing afterwards (C10)
fn run_channeled_crossunsub() -> Option<(String, String, String)> {
    use std::sync::mpsc;
    struct Lag {
        got: Arc<Mutex<Vec<Ac>>>,
        gate: Mutex<mpsc::Receiver<()>>,
    }
    impl Subscriber<St, Ac> for Lag {
        fn on_notify(&self, _s: &St, a: &Ac) {
            if *a == 1 {
                let _ = self.gate.lock().unwrap().recv_timeout(Duration::from_secs(10));
            }
            self.got.lock().unwrap().push(*a);
        }
    }
    struct Killer {
        victim: Mutex<Option<Box<dyn Subscription>>>,
        victim_got: Arc<Mutex<Vec<Ac>>>,
        out: Mutex<mpsc::Sender<Vec<Ac>>>,
    }
    impl Subscriber<St, Ac> for Killer {
        fn on_notify(&self, _s: &St, a: &Ac) {
            if *a == 3 {
                let h = self.victim.lock().unwrap().take();
                if let Some(h) = h {
                    h.unsubscribe();
                    let snap = self.victim_got.lock().unwrap().clone();
                    let _ = self.out.lock().unwrap().send(snap);
                }
            }
        }
    }
    let store = StoreBuilder::<St, Ac>::new(0)
        .with_reducer(Box::new(crate::reducer::FnReducer::from(|s: &St, a: &Ac| DispatchOp::Dispatch(s + a, None))))
        .build()
        .unwrap();
    let got_b = Arc::new(Mutex::new(vec![]));
    let (gate_tx, gate_rx) = mpsc::channel::<()>();
    let hb = match store.subscribed_with(8, BackpressurePolicy::BlockOnFull, Box::new(Lag { got: got_b.clone(), gate: Mutex::new(gate_rx) })) {
        Ok(h) => h,
        Err(_) => return None,
    };
    let (out_tx, out_rx) = mpsc::channel::<Vec<Ac>>();
    let ha = match store.subscribed_with(8, BackpressurePolicy::BlockOnFull, Box::new(Killer { victim: Mutex::new(Some(hb)), victim_got: got_b.clone(), out: Mutex::new(out_tx) })) {
        Ok(h) => h,
        Err(_) => return None,
    };
    for a in 1..=3 {
        store.dispatch(a).unwrap();
    }
    // give an early return 1 s to show itself, then let the lagging subscriber go
    let early = out_rx.recv_timeout(Duration::from_millis(1000)).ok();
    let _ = gate_tx.send(());
    let snap = match early {
        Some(s) => Some(s),
        None => out_rx.recv_timeout(Duration::from_secs(10)).ok(),
    };
    ha.unsubscribe();
    store.stop();
    let fin = got_b.lock().unwrap().clone();
    match snap {
        None => None, // no report within the time limit: no verdict
        Some(snap) => {
            if snap != vec![1, 2, 3] || fin != snap {
                Some(("O-C10-release-order".into(), "when unsubscribe() of the lagging subscriber returns it has received [1, 2, 3], and nothing afterwards".into(), format!("at return {:?}, finally {:?}", snap, fin)))
            } else {
                None
            }
        }
    }
}
fn suite_channeled() -> Option<String> {
    if let Some((ob, exp, got)) = run_channeled_crossunsub() {
        return Some(found("channeled", &ob, "channeled crossunsub".to_string(), exp, got));
    }
    for (cap, default_api) in [(1usize, false), (3, false), (0, true), (40, false)] {
        if let Some((ob, exp, got)) = run_channeled_overfill(cap, default_api) {
            return Some(found("channeled", &ob, format!("channeled overfill cap={} default_api={}", cap, default_api as u8), exp, got));
        }
    }
    for policy in ['B', 'O', 'L'] {
        for cap in [1usize, 3] {
            for teardown in ['u', 's'] {
                if let Some((ob, exp, got)) = run_channeled_case(policy, cap, teardown) {
                    return Some(found("channeled", &ob, format!("channeled policy={} cap={} teardown={}", policy, cap, teardown), exp, got));
                }
            }
        }
    }
    None
}
fn replay_channeled(case: &str) -> Option<String> {
    if case.contains("crossunsub") {
        return run_channeled_crossunsub().map(|(ob, exp, got)| found("channeled", &ob, case.to_string(), exp, got));
    }
    if case.contains("overfill") {
        let cap: usize = case.split_whitespace().find_map(|t| t.strip_prefix("cap=")).and_then(|v| v.parse().ok()).unwrap_or(1);
        let d = case.contains("default_api=1");
        return run_channeled_overfill(cap, d).map(|(ob, exp, got)| found("channeled", &ob, case.to_string(), exp, got));
    }
    let (mut p, mut cap, mut t) = ('B', 1, 'u');
    for tok in case.split_whitespace() {
        if let Some(v) = tok.strip_prefix("policy=") {
            p = v.chars().next().unwrap();
        } else if let Some(v) = tok.strip_prefix("cap=") {
            cap = v.parse().unwrap();
        } else if let Some(v) = tok.strip_prefix("teardown=") {
            t = v.chars().next().unwrap();
        }
    }
    run_channeled_case(p, cap, t).map(|(ob, exp, got)| found("channeled", &ob, case.to_string(), exp, got))
}

// ---------------------------------------------------------------- suite `iter`: the state iterator end to end (C14)
// case: "iter n=<actions> keep=<0|1> policy=<B|L> full=<0|1>"
fn run_iter_case(n: usize, keep: bool, policy: char, full: bool) -> Option<(String, String, String)> {
    use std::sync::mpsc;
    let pol = if policy == 'L' { BackpressurePolicy::DropLatest } else { BackpressurePolicy::BlockOnFull };
    let (gate_tx, gate_rx) = mpsc::channel::<()>();
    let gate_rx = Mutex::new(gate_rx);
    let (ent_tx, ent_rx) = mpsc::channel::<()>();
    let ent_tx = Mutex::new(ent_tx);
    let store = StoreBuilder::<St, Ac>::new(0)
        .with_capacity(if full { 1 } else { 16 })
        .with_policy(pol)
        .with_reducer(Box::new(crate::reducer::FnReducer::from(move |s: &St, a: &Ac| {
            if full && *a == 1 {
                let _ = ent_tx.lock().unwrap().send(());
                let _ = gate_rx.lock().unwrap().recv_timeout(Duration::from_secs(10));
            }
            if keep && *a % 2 == 0 { DispatchOp::Keep(mix(*s, *a, 0), None) } else { DispatchOp::Dispatch(mix(*s, *a, 0), None) }
        })))
        .build()
        .unwrap();
    let direct: Arc<Mutex<Vec<Ev>>> = Arc::new(Mutex::new(vec![]));
    let mut it = store.iter();
    let _d = store.add_subscriber(Arc::new(Sb { id: 0, log: direct.clone() }));
    let (out_tx, out_rx) = mpsc::channel();
    let consumer = std::thread::spawn(move || {
        loop {
            let x = it.next();
            let end = x.is_none();
            let _ = out_tx.send(x);
            if end {
                let _ = out_tx.send(it.next());
                let _ = out_tx.send(it.next());
                break;
            }
        }
    });
    let count = if full { 2 } else { n };
    for a in 1..=count as Ac {
        let _ = store.dispatch(a);
        if full && a == 1 {
            let _ = ent_rx.recv_timeout(Duration::from_secs(10));
        }
    }
    if full {
        // the dispatch queue is full at the moment of close(); then the reducer is released
        store.close();
        let _ = gate_tx.send(());
    }
    store.stop();
    let mut got: Vec<(St, Ac)> = vec![];
    let mut nones = 0;
    loop {
        match out_rx.recv_timeout(Duration::from_secs(5)) {
            Ok(Some(p)) => {
                if nones > 0 {
                    return Some(("O-C14-next-end".into(), "None forever after the end".into(), format!("{:?} after None", p)));
                }
                got.push(p)
            }
            Ok(None) => {
                nones += 1;
                if nones == 3 {
                    break;
                }
            }
            Err(_) => {
                std::mem::forget(consumer);
                return Some(("O-C07-loop-trace".into(), "after stop() the iterator yields the remaining pairs and then None".into(), format!("it yielded {:?} and then blocked (no None within 5 s)", got)));
            }
        }
    }
    let _ = consumer.join();
    let exp: Vec<(St, Ac)> = direct.lock().unwrap().iter().filter_map(|e| if let Ev::Notify(_, s, a) = e { Some((*s, *a)) } else { None }).collect();
    if got != exp {
        return Some(("O-C14-iter-forward-one-clone".into(), format!("the iterator yields the notification stream {:?}", exp), format!("{:?}", got)));
    }
    None
}
// the consumer is one item behind when the store stops: stop() waits in the release of the iterator's
// subscription (blocking Exit behind the unread pair); the consumer then gets the pair, then None
fn run_iter_late_consumer() -> Option<(String, String, String)> {
    use std::sync::mpsc;
    let store = StoreBuilder::<St, Ac>::new(0)
        .with_reducer(Box::new(crate::reducer::FnReducer::from(|s: &St, a: &Ac| DispatchOp::Dispatch(mix(*s, *a, 0), None))))
        .build()
        .unwrap();
    let mut it = store.iter();
    let direct: Arc<Mutex<Vec<Ev>>> = Arc::new(Mutex::new(vec![]));
    let _d = store.add_subscriber(Arc::new(Sb { id: 0, log: direct.clone() }));
    store.dispatch(1).unwrap();
    // wait until the pair has been handed to the iterator's channel (the direct subscriber is registered after it)
    let t0 = Instant::now();
    while direct.lock().unwrap().iter().filter(|e| matches!(e, Ev::Notify(..))).count() < 1 && t0.elapsed() < Duration::from_secs(5) {
        std::thread::sleep(Duration::from_millis(5));
    }
    let st2 = store.clone();
    let stopper = std::thread::spawn(move || st2.stop());
    std::thread::sleep(Duration::from_millis(200));
    let (out_tx, out_rx) = mpsc::channel();
    let consumer = std::thread::spawn(move || {
        for _ in 0..3 {
            let _ = out_tx.send(it.next());
        }
    });
    let mut got = vec![];
    for _ in 0..3 {
        match out_rx.recv_timeout(Duration::from_secs(5)) {
            Ok(x) => got.push(x),
            Err(_) => {
                std::mem::forget(consumer);
                std::mem::forget(stopper);
                return Some(("O-C14-iter-release-sends-exit".into(), "a consumer that is one item behind when the store stops gets Some(pair), None, None".into(), format!("{:?}, then next() blocked (nothing within 5 s)", got)));
            }
        }
    }
    let _ = consumer.join();
    let _ = stopper.join();
    let exp = vec![Some((mix(0, 1, 0), 1)), None, None];
    if got != exp {
        return Some(("O-C14-next-end".into(), format!("{:?}", exp), format!("{:?}", got)));
    }
    None
}

fn suite_iter() -> Option<String> {
    if let Some((ob, exp, got)) = run_iter_late_consumer() {
        return Some(found("iter", &ob, "iter late_consumer".to_string(), exp, got));
    }
    for (n, keep, policy, full) in [(0usize, false, 'B', false), (1, false, 'B', false), (4, false, 'B', false), (5, true, 'B', false), (2, false, 'L', true)] {
        if let Some((ob, exp, got)) = run_iter_case(n, keep, policy, full) {
            return Some(found("iter", &ob, format!("iter n={} keep={} policy={} full={}", n, keep as u8, policy, full as u8), exp, got));
        }
    }
    None
}
fn replay_iter(case: &str) -> Option<String> {
    if case.contains("late_consumer") {
        return run_iter_late_consumer().map(|(ob, exp, got)| found("iter", &ob, case.to_string(), exp, got));
    }
    let (mut n, mut keep, mut p, mut full) = (1, false, 'B', false);
    for tok in case.split_whitespace() {
        if let Some(v) = tok.strip_prefix("n=") {
            n = v.parse().unwrap();
        } else if let Some(v) = tok.strip_prefix("keep=") {
            keep = v == "1";
        } else if let Some(v) = tok.strip_prefix("policy=") {
            p = v.chars().next().unwrap();
        } else if let Some(v) = tok.strip_prefix("full=") {
            full = v == "1";
        }
    }
    run_iter_case(n, keep, p, full).map(|(ob, exp, got)| found("iter", &ob, case.to_string(), exp, got))
}

// ---------------------------------------------------------------- suite `latereg`: components registered at run time from another thread (C07)
// case: "latereg kind=<r|m|s>"
fn run_latereg_case(kind: char) -> Option<(String, String, String)> {
    use std::sync::mpsc;
    let log: Log = Arc::new(Mutex::new(vec![]));
    let verdicts = Arc::new(Mutex::new(vec![[V::Continue; 3]; 4]));
    let remove = Arc::new(Mutex::new(vec![false; 4]));
    let (gate_tx, gate_rx) = mpsc::channel::<()>();
    let gate_rx = Mutex::new(gate_rx);
    let (ent_tx, ent_rx) = mpsc::channel::<()>();
    let ent_tx = Mutex::new(ent_tx);
    struct Parking {
        log: Log,
        gate: Mutex<mpsc::Receiver<()>>,
        entered: Mutex<mpsc::Sender<()>>,
    }
    impl Reducer<St, Ac> for Parking {
        fn reduce(&self, state: &St, action: &Ac) -> DispatchOp<St, Ac> {
            self.log.lock().unwrap().push(Ev::Reduce(0, *state, *action));
            if *action == 1 {
                let _ = self.entered.lock().unwrap().send(());
                let _ = self.gate.lock().unwrap().recv_timeout(Duration::from_secs(10));
            }
            DispatchOp::Dispatch(mix(*state, *action, 0), None)
        }
    }
    let store = StoreBuilder::<St, Ac>::new(0)
        .with_reducer(Box::new(Parking { log: log.clone(), gate: gate_rx, entered: ent_tx }))
        .with_middleware(Arc::new(Mw { id: 0, verdicts: verdicts.clone(), remove_effect: remove.clone(), log: log.clone() }))
        .build()
        .unwrap();
    let _s0 = store.add_subscriber(Arc::new(Sb { id: 0, log: log.clone() }));
    store.dispatch(1).unwrap();
    if ent_rx.recv_timeout(Duration::from_secs(10)).is_err() {
        return Some(("O-C01-loop-state".into(), "the reducer starts reducing action 1".into(), "it did not within 10 s".into()));
    }
    // while action 1 is in its reduce phase, another thread registers a component
    let st2 = store.clone();
    let l2 = log.clone();
    let (v2, r2) = (verdicts.clone(), remove.clone());
    let h = std::thread::spawn(move || match kind {
        'r' => st2.add_reducer(Box::new(Rd { id: 1, cfg: RCfg { dispatch: true, effect: 0 }, log: l2 })),
        'm' => st2.add_middleware(Arc::new(Mw { id: 1, verdicts: v2, remove_effect: r2, log: l2 })),
        _ => {
            let _ = st2.add_subscriber(Arc::new(Sb { id: 1, log: l2 }));
        }
    });
    std::thread::sleep(Duration::from_millis(150));
    let _ = gate_tx.send(());
    let _ = h.join();
    // the registration has returned: an action dispatched now must go through the new component
    store.dispatch(2).unwrap();
    store.stop();
    let got = log.lock().unwrap().clone();
    let hit = match kind {
        'r' => got.iter().any(|e| matches!(e, Ev::Reduce(1, _, 2))),
        'm' => got.iter().any(|e| matches!(e, Ev::BR(1, 2, _))) && got.iter().any(|e| matches!(e, Ev::BD(1, 2, _))),
        _ => got.iter().any(|e| matches!(e, Ev::Notify(1, _, 2))),
    };
    if !hit {
        let (ob, what) = match kind {
            'r' => ("O-C07-add_reducer-appends", "reducer"),
            'm' => ("O-C07-add_middleware-appends", "middleware"),
            _ => ("O-C07-add_subscriber-appends", "subscriber"),
        };
        return Some((ob.into(), format!("a {} registered (call returned) before action 2 was dispatched takes part in action 2", what), format!("it was left out: {:?}", got.iter().filter(|e| match e { Ev::Reduce(_, _, a) | Ev::BR(_, a, _) | Ev::Notify(_, _, a) => *a == 2, _ => false }).collect::<Vec<_>>())));
    }
    // and the first component still does
    if !got.iter().any(|e| matches!(e, Ev::Reduce(0, _, 2))) {
        return Some(("O-C07-add_reducer-appends".into(), "the build-time reducer still takes part in action 2".into(), "it was left out".into()));
    }
    None
}
fn suite_latereg() -> Option<String> {
    for kind in ['r', 'm', 's'] {
        if let Some((ob, exp, got)) = run_latereg_case(kind) {
            return Some(found("latereg", &ob, format!("latereg kind={}", kind), exp, got));
        }
    }
    None
}
fn replay_latereg(case: &str) -> Option<String> {
    let k = case.split_whitespace().find_map(|t| t.strip_prefix("kind=")).and_then(|v| v.chars().next()).unwrap_or('r');
    run_latereg_case(k).map(|(ob, exp, got)| found("latereg", &ob, case.to_string(), exp, got))
}

// ---------------------------------------------------------------- known findings: deterministic demonstrations
// ---------------------------------------------------------------- suite `balance`: the equations of C18 on a stopped store
// case: "balance policy=<B|O|L> cap=<n> n=<actions> after=<dispatches after stop> mw=<0|1>"
// the reducer is parked on the first action while the others are dispatched (drop policies: some are discarded)
fn run_balance_case(policy: char, cap: usize, n: usize, after: usize, with_mw: bool) -> Option<(String, String, String)> {
    use std::sync::mpsc;
    let (gate_tx, gate_rx) = mpsc::channel::<()>();
    let gate_rx = Mutex::new(gate_rx);
    let (entered_tx, entered_rx) = mpsc::channel::<()>();
    let entered_tx = Mutex::new(entered_tx);
    let reduced: Arc<Mutex<Vec<Ac>>> = Arc::new(Mutex::new(vec![]));
    let r2 = reduced.clone();
    let park = policy != 'B';
    let hooks = Arc::new(AtomicUsize::new(0));
    let br_hooks = Arc::new(AtomicUsize::new(0));
    struct CountMw {
        hooks: Arc<AtomicUsize>,
        br_hooks: Arc<AtomicUsize>,
    }
    impl Middleware<St, Ac> for CountMw {
        fn before_reduce(&self, action: &Ac, _s: &St, _d: Arc<dyn Dispatcher<Ac>>) -> Result<MiddlewareOp, StoreError> {
            self.hooks.fetch_add(1, Ordering::SeqCst);
            self.br_hooks.fetch_add(1, Ordering::SeqCst);
            // veto every third action
            if *action % 3 == 0 { Ok(MiddlewareOp::DoneAction) } else { Ok(MiddlewareOp::ContinueAction) }
        }
        fn before_effect(&self, _a: &Ac, _s: &St, _e: &mut Vec<Effect<Ac>>, _d: Arc<dyn Dispatcher<Ac>>) -> Result<MiddlewareOp, StoreError> {
            self.hooks.fetch_add(1, Ordering::SeqCst);
            Ok(MiddlewareOp::ContinueAction)
        }
        fn before_dispatch(&self, _a: &Ac, _s: &St, _d: Arc<dyn Dispatcher<Ac>>) -> Result<MiddlewareOp, StoreError> {
            self.hooks.fetch_add(1, Ordering::SeqCst);
            Ok(MiddlewareOp::ContinueAction)
        }
    }
    let mut b = StoreBuilder::<St, Ac>::new(0)
        .with_capacity(cap)
        .with_policy(match policy { 'O' => BackpressurePolicy::DropOldest, 'L' => BackpressurePolicy::DropLatest, _ => BackpressurePolicy::BlockOnFull })
        .with_reducer(Box::new(crate::reducer::FnReducer::from(move |s: &St, a: &Ac| {
            if park && *a == 1 {
                let _ = entered_tx.lock().unwrap().send(());
                let _ = gate_rx.lock().unwrap().recv_timeout(Duration::from_secs(10));
            }
            r2.lock().unwrap().push(*a);
            DispatchOp::Dispatch(mix(*s, *a, 0), None)
        })));
    if with_mw {
        b = b.add_middleware(Arc::new(CountMw { hooks: hooks.clone(), br_hooks: br_hooks.clone() }));
    }
    let store = b.build().unwrap();
    let mut dispatched = 0usize;
    let mut rejected_early = 0usize;
    for a in 1..=n as Ac {
        // every dispatch on the open store counts as dispatched, whatever the channel does with it
        let _ = StoreImpl::dispatch(&*store, a);
        dispatched += 1;
        if park && a == 1 && entered_rx.recv_timeout(Duration::from_secs(10)).is_err() {
            let _ = gate_tx.send(());
            store.stop();
            return None;
        }
    }
    if park {
        // close while the queue is still full: the marker itself competes for room under the drop policies.  Neither
        // close() nor a dispatch racing with it may wait for the parked reducer (C06: a drop policy never waits)
        let sc = store.clone();
        let (cd_tx, cd_rx) = mpsc::channel::<()>();
        let closer = std::thread::spawn(move || {
            sc.close();
            let _ = cd_tx.send(());
        });
        let closed_in_time = cd_rx.recv_timeout(Duration::from_secs(3)).is_ok();
        let sd = store.clone();
        let (dd_tx, dd_rx) = mpsc::channel::<()>();
        let racer = std::thread::spawn(move || {
            let _ = StoreImpl::dispatch(&*sd, 77);
            let _ = dd_tx.send(());
        });
        let dispatched_in_time = dd_rx.recv_timeout(Duration::from_secs(3)).is_ok();
        if !closed_in_time || !dispatched_in_time {
            let _ = gate_tx.send(());
            let _ = closer.join();
            let _ = racer.join();
            store.stop();
            return Some(("O-C06-send-never-blocks".into(), "with a drop policy neither close() nor a dispatch racing with it waits for the parked reducer".into(), format!("close() returned within 3 s: {}, dispatch returned within 3 s: {}", closed_in_time, dispatched_in_time)));
        }
        let _ = closer.join();
        let _ = racer.join();
        // the racing dispatch came after close(): it was rejected by the store's own dispatch
        rejected_early = 1;
    }
    let _ = gate_tx.send(());
    store.stop();
    let mut rejected = 0usize;
    for a in 0..after as Ac {
        if StoreImpl::dispatch(&*store, 100 + a).is_err() {
            rejected += 1;
        }
    }
    let m = store.get_metrics();
    let got_reduced = reduced.lock().unwrap().len();
    // actions that reached the reducer context (seen by the first hook, or by the reducer when there is no middleware)
    let seen = if with_mw { br_hooks.load(Ordering::SeqCst) } else { got_reduced };
    if seen + m.action_dropped != dispatched {
        return Some(("O-C06-send-drop-oldest-any-schedule".into(), format!("actions that reached the reducer context ({}) + action_dropped == {} dispatched while open", seen, dispatched), format!("action_dropped {}", m.action_dropped)));
    }
    // the received counter: those actions, the shutdown marker counted or not
    if m.action_received != seen && m.action_received != seen + 1 {
        return Some(("O-C18-loop-counts".into(), format!("action_received == {} (+1 if the marker is counted)", seen), format!("{}", m.action_received)));
    }
    if m.action_reduced != got_reduced {
        return Some(("O-C18-do_reduce-counts".into(), format!("action_reduced == {} actions that reached the reducer", got_reduced), format!("{}", m.action_reduced)));
    }
    if with_mw && m.middleware_executed != hooks.load(Ordering::SeqCst) {
        return Some(("O-C18-do_reduce-counts".into(), format!("middleware_executed == {} hooks actually invoked", hooks.load(Ordering::SeqCst)), format!("{}", m.middleware_executed)));
    }
    if m.effect_issued != 0 {
        return Some(("O-C18-do_effect-counts".into(), "effect_issued == 0 (the reducer returns no effects)".into(), format!("{}", m.effect_issued)));
    }
    let rejected = rejected + rejected_early;
    let after = after + rejected_early;
    if rejected != after || m.error_occurred != rejected {
        return Some(("O-C18-dispatch-open-counts-nothing".into(), format!("error_occurred == {} dispatches rejected after close ({} attempted)", rejected, after), format!("{}", m.error_occurred)));
    }
    None
}
fn suite_balance() -> Option<String> {
    for policy in ['L', 'O', 'B'] {
        for (cap, n) in [(1usize, 4usize), (2, 6)] {
            for after in [0usize, 2] {
                for with_mw in [false, true] {
                    if let Some((ob, exp, got)) = run_balance_case(policy, cap, n, after, with_mw) {
                        return Some(found("balance", &ob, format!("balance policy={} cap={} n={} after={} mw={}", policy, cap, n, after, with_mw as u8), exp, got));
                    }
                }
            }
        }
    }
    None
}
fn replay_balance(case: &str) -> Option<String> {
    let (mut policy, mut cap, mut n, mut after, mut mw) = ('L', 1usize, 4usize, 0usize, false);
    for tok in case.split_whitespace() {
        if let Some(v) = tok.strip_prefix("policy=") {
            policy = v.chars().next().unwrap();
        } else if let Some(v) = tok.strip_prefix("cap=") {
            cap = v.parse().unwrap();
        } else if let Some(v) = tok.strip_prefix("n=") {
            n = v.parse().unwrap();
        } else if let Some(v) = tok.strip_prefix("after=") {
            after = v.parse().unwrap();
        } else if let Some(v) = tok.strip_prefix("mw=") {
            mw = v == "1";
        }
    }
    run_balance_case(policy, cap, n, after, mw).map(|(ob, exp, got)| found("balance", &ob, case.to_string(), exp, got))
}

fn finding_c11() -> Option<String> {
    // F-C11-1: effects of actions accepted before stop() are skipped
    let ran = Arc::new(AtomicUsize::new(0));
    let r2 = ran.clone();
    let gate = Arc::new(Mutex::new(()));
    let g2 = gate.clone();
    let store = StoreBuilder::<St, Ac>::new(0)
        .with_reducer(Box::new(crate::reducer::FnReducer::from(move |s: &St, a: &Ac| {
            let _g = g2.lock().unwrap(); // hold the loop until stop() is under way
            let r3 = r2.clone();
            DispatchOp::Dispatch(s + a, Some(Effect::Task(Box::new(move || { r3.fetch_add(1, Ordering::SeqCst); }))))
        })))
        .build()
        .unwrap();
    let guard = gate.lock().unwrap();
    for a in 1..=4 {
        store.dispatch(a).unwrap();
    }
    let s2 = store.clone();
    let h = std::thread::spawn(move || s2.stop());
    std::thread::sleep(Duration::from_millis(200));
    drop(guard);
    h.join().unwrap();
    std::thread::sleep(Duration::from_millis(200));
    let n = ran.load(Ordering::SeqCst);
    if n != 4 {
        return Some(found("finding-c11", "O-C11-stop-order", "4 actions with one Task effect each accepted before stop()".into(), "4 effects run".into(), format!("{} effects run", n)));
    }
    None
}
fn finding_c18() -> Option<String> {
    // F-C18-1: dropped notifications of a subscriber channel are booked on the store's action_dropped
    struct Slow;
    impl Subscriber<St, Ac> for Slow {
        fn on_notify(&self, _s: &St, _a: &Ac) {
            std::thread::sleep(Duration::from_millis(60));
        }
    }
    let store = StoreBuilder::<St, Ac>::new(0).with_reducer(Box::new(crate::reducer::FnReducer::from(|s: &St, a: &Ac| DispatchOp::Dispatch(s + a, None)))).build().unwrap();
    let _sub = store.subscribed_with(1, BackpressurePolicy::DropOldest, Box::new(Slow)).unwrap();
    for a in 1..=6 {
        store.dispatch(a).unwrap();
    }
    store.stop();
    let m = store.get_metrics();
    if m.action_received - 1 + m.action_dropped != 6 {
        return Some(found("finding-c18", "O-C18-own-channel", "blocking dispatch queue, 6 actions, one DropOldest channeled subscriber (cap 1) that is slow".into(), "received (without Exit) + dropped == 6".into(), format!("received {} + dropped {}", m.action_received - 1, m.action_dropped)));
    }
    None
}
fn finding_c09() -> Option<String> {
    // F-C09-1: a notification in flight when unsubscribe() returns still reaches the subscriber (do_notify iterates a
    // snapshot taken outside the subscribers lock).  Subscriber 0 parks inside on_notify of action 1; meanwhile
    // subscriber 1 is unsubscribed (the call returns); then subscriber 0 is let go.
    use std::sync::mpsc;
    struct Parked {
        log: Log,
        entered: Mutex<mpsc::Sender<()>>,
        gate: Mutex<mpsc::Receiver<()>>,
    }
    impl Subscriber<St, Ac> for Parked {
        fn on_notify(&self, s: &St, a: &Ac) {
            self.log.lock().unwrap().push(Ev::Notify(0, *s, *a));
            let _ = self.entered.lock().unwrap().send(());
            let _ = self.gate.lock().unwrap().recv_timeout(Duration::from_secs(5));
        }
    }
    let log: Log = Arc::new(Mutex::new(vec![]));
    let store = StoreBuilder::<St, Ac>::new(0).with_reducer(Box::new(Rd { id: 0, cfg: RCfg { dispatch: true, effect: 0 }, log: log.clone() })).build().unwrap();
    let (entered_tx, entered_rx) = mpsc::channel::<()>();
    let (gate_tx, gate_rx) = mpsc::channel::<()>();
    let _h0 = store.add_subscriber(Arc::new(Parked { log: log.clone(), entered: Mutex::new(entered_tx), gate: Mutex::new(gate_rx) }));
    let h1 = store.add_subscriber(Arc::new(Sb { id: 1, log: log.clone() }));
    store.dispatch(1).unwrap();
    if entered_rx.recv_timeout(Duration::from_secs(5)).is_err() {
        let _ = gate_tx.send(());
        store.stop();
        return None;
    }
    h1.unsubscribe(); // returns: the subscribers lock is free while subscriber 0 is being notified
    let returned_at = log.lock().unwrap().len();
    let _ = gate_tx.send(());
    store.stop();
    let got = log.lock().unwrap().clone();
    let late: Vec<&Ev> = got[returned_at..].iter().filter(|e| matches!(e, Ev::Notify(1, _, _))).collect();
    if !late.is_empty() {
        return Some(found("finding-c09", "O-C09-k-notify-under-lock", "two direct subscribers; subscriber 1 is unsubscribed while subscriber 0 is being notified of action 1".into(), "subscriber 1 receives nothing after unsubscribe() has returned".into(), format!("{:?}", late)));
    }
    None
}
fn finding_c14() -> Option<String> {
    // F-C14-1: dropping an iterator that still has an unread pair hangs (watchdog 2 s)
    let store = StoreBuilder::<St, Ac>::new(0).with_reducer(Box::new(crate::reducer::FnReducer::from(|s: &St, a: &Ac| DispatchOp::Dispatch(s + a, None)))).build().unwrap();
    let it = store.iter();
    store.dispatch(1).unwrap();
    std::thread::sleep(Duration::from_millis(150));
    let done = Arc::new(AtomicUsize::new(0));
    let d2 = done.clone();
    std::thread::spawn(move || {
        drop(it);
        d2.store(1, Ordering::SeqCst);
    });
    let t0 = Instant::now();
    while done.load(Ordering::SeqCst) == 0 && t0.elapsed() < Duration::from_secs(2) {
        std::thread::sleep(Duration::from_millis(20));
    }
    if done.load(Ordering::SeqCst) == 0 {
        std::mem::forget(store);
        return Some(found("finding-c14", "O-C14-release-can-complete", "iter(); dispatch one notifying action; drop the iterator without reading".into(), "drop returns".into(), "drop still blocked after 2 s".into()));
    }
    store.stop();
    None
}

#[test]
fn verif_witness() {
    let mode = std::env::var("VERIF_WITNESS_MODE").unwrap_or_else(|_| "search:pipeline".to_string());
    let res: Option<String> = if let Some(suites) = mode.strip_prefix("search:") {
        let mut r = None;
        for s in suites.split(',') {
            r = match s {
                "pipeline" => suite_pipeline(),
                "loop" => suite_loop(),
                "channel" => suite_channel(),
                "builder" => suite_builder(),
                "selector" => suite_selector(),
                "subs" => suite_subs(),
                "block" => suite_block(),
                "twostores" => suite_twostores(),
                "channeled" => suite_channeled(),
                "iter" => suite_iter(),
                "latereg" => suite_latereg(),
                "balance" => suite_balance(),
                "finding-c11" => finding_c11(),
                "finding-c18" => finding_c18(),
            "finding-c09" => finding_c09(),
                "finding-c09" => finding_c09(),
                "finding-c14" => finding_c14(),
                _ => None,
            };
            if r.is_some() {
                break;
            }
        }
        r
    } else if let Some(path) = mode.strip_prefix("replay:") {
        let case = std::fs::read_to_string(path).unwrap();
        let case = case.trim();
        match case.split_whitespace().next().unwrap_or("") {
            "pipeline" => replay_pipeline(case),
            "loop" => replay_loop(case),
            "channel" => replay_channel(case),
            "builder" => replay_builder(case),
            "selector" => replay_selector(case),
            "subs" => replay_subs(case),
            "block" => replay_block(case),
            "twostores" => replay_twostores(case),
            "channeled" => replay_channeled(case),
            "iter" => replay_iter(case),
            "latereg" => replay_latereg(case),
            "balance" => replay_balance(case),
            "finding-c11" => finding_c11(),
            "finding-c18" => finding_c18(),
            "finding-c09" => finding_c09(),
            "finding-c14" => finding_c14(),
            _ => None,
        }
    } else {
        None
    };
    out(res.unwrap_or_else(|| "{\"found\": false}".to_string()));
}
