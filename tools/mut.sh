#!/bin/bash
# dev tool: tools/mut.sh <unit> <file> <python-regex> <replacement>   -- run unit against a mutated copy of /repo/src
set -e
unit=$1; file=$2; rx=$3; rep=$4
d=$(mktemp -d /tmp/mut_XXXX)
cp -r /repo/src $d/src
python3 - "$d/src/$file" "$rx" "$rep" <<'PY'
import sys,re
p,rx,rep=sys.argv[1:4]
s=open(p).read()
n=len(re.findall(rx,s,flags=re.S))
s2=re.sub(rx,rep,s,count=1,flags=re.S)
assert s!=s2, "mutation did not apply"
open(p,'w').write(s2)
print("mutation applied (matches=%d)"%n)
PY
python3 /verif/tools/vrun.py $unit $d/src ${@:5} || true
rm -rf $d
