#!/usr/bin/env python3
"""dev tool: generate a unit from a source dir and run verus; print mapped failures"""
import sys, os, tempfile, shutil, json
sys.path.insert(0, os.path.join(os.path.dirname(os.path.abspath(__file__)), '..', 'lib'))
import vx, verusrun
unit = sys.argv[1]
src = sys.argv[2] if len(sys.argv) > 2 and not sys.argv[2].startswith('--') else '/repo/src'
canary = '--canary' in sys.argv
keep = '--keep' in sys.argv
tpl = os.path.join(os.path.dirname(os.path.abspath(__file__)), '..', 'contracts', unit + '.vt')
d = tempfile.mkdtemp(prefix='vrun_')
try:
    try:
        u = vx.Unit(tpl, src)
        g = u.generate(canary=canary)
    except vx.Undecided as e:
        print('UNDECIDED (extract):', e); sys.exit(2)
    r = verusrun.run_verus(g, os.path.join(d, unit + '.rs'))
    if keep:
        shutil.copy(os.path.join(d, unit + '.rs'), '/tmp/vgen/' + unit + '.rs')
    print('verified=%d errors=%d wall=%.1fs ok=%s fns=%d clauses=%d' % (r.verified, r.errors, r.wall_s, r.ok, len(g.fns), len(g.clauses)))
    for (k_, p_, why_) in g.lost:
        print('LOST: %s %s: %s' % (k_, ' '.join(p_), why_))
    for sf in r.soft:
        print('SOFT: ' + sf['reason'])
    for u_ in r.undecided:
        print('UNDECIDED:', u_[:600])
    for f in r.failures:
        print('FAILED: %-45s in %-40s  [%s] gen:%s' % (f['clause'], f['fn'], f['message'], f['gen_line']))
    if '-v' in sys.argv:
        for f in r.failures:
            print(f['rendered'])
    sys.exit(0 if r.ok else (2 if r.undecided and not r.failures else 1))
finally:
    shutil.rmtree(d, ignore_errors=True)
