#!/usr/bin/env python3
"""writes contracts/BASELINE_OBLIGATIONS: number of named clauses per (unit, property) on the pinned tree"""
import sys, os
HERE = os.path.dirname(os.path.abspath(__file__))
sys.path.insert(0, os.path.join(HERE, '..', 'lib'))
import vx
from propcfg import PROPS
out = []
for unit in ['store']:
    g = vx.Unit(os.path.join(HERE, '..', 'contracts', unit + '.vt'), '/repo/src').generate()
    assert not g.lost, g.lost
    for p in sorted(PROPS):
        out.append('%s %s %d' % (unit, p, sum(1 for c in g.clauses if p in (c.props or []))))
open(os.path.join(HERE, '..', 'contracts', 'BASELINE_OBLIGATIONS'), 'w').write('\n'.join(out) + '\n')
print('\n'.join(out))
