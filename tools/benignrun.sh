#!/bin/bash
# tools/benignrun.sh [names...] -- every check against a scratch copy with a harmless edit applied: no VIOLATION expected
cd /verif
names=${@:-$(ls seeded/benign | sed 's/.diff$//')}
for b in $names; do
  d=$(mktemp -d /tmp/bnr_XXXX)
  rsync -a --exclude target --exclude .git /repo/ $d/
  (cd $d && patch -p1 -s < /verif/seeded/benign/$b.diff) || { echo "$b: PATCH FAILED"; rm -rf $d; continue; }
  res=""
  for p in C01 C02 C03 C04 C05 C06 C07 C08 C09 C10 C11 C12 C14 C15 C16 C17 C18 C19; do
    out=$(./check $p --repo $d 2>&1); rc=$?
    res="$res $p:$rc"
    if echo "$out" | grep -q '^VIOLATION'; then echo "!!! $b $p FALSE ALARM: $(echo "$out" | grep '^VIOLATION' | head -2)"; fi
  done
  echo "$b:$res"
  rm -rf $d
done
