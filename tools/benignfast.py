#!/usr/bin/env python3
"""dev tool: tools/benignfast.py <benign patch name> -- one Verus run, all witness suites, all Kani groups against a scratch
copy with the harmless edit applied; prints what any check would have reported as a violation"""
import sys, os, subprocess, tempfile, shutil, json
HERE = os.path.dirname(os.path.abspath(__file__))
sys.path.insert(0, os.path.join(HERE, '..', 'lib'))
import vx, verusrun, kanirun, witness
name = sys.argv[1]
d = tempfile.mkdtemp(prefix='bf_')
out = []
try:
    repo = os.path.join(d, 'r')
    subprocess.run(['rsync', '-a', '--exclude', 'target', '--exclude', '.git', '/repo/', repo + '/'], check=True)
    p = subprocess.run(['patch', '-p1', '-s', '-i', os.path.join(HERE, '..', 'seeded', 'benign', name + '.diff')], cwd=repo)
    if p.returncode != 0:
        print(name, 'PATCH FAILED'); sys.exit(0)
    known = set()
    for ln in open(os.path.join(HERE, '..', 'known_findings.txt')):
        if ln.startswith('known:'):
            kv = dict(x.split('=', 1) for x in ln[6:].split(' :: ')[0].split() if '=' in x)
            known.add((kv['obligation'], kv['fn']))
    # Verus (with the stub-on-rejection loop of the check, simplified)
    stub = {}
    for _ in range(6):
        g = vx.Unit(os.path.join(HERE, '..', 'contracts', 'store.vt'), os.path.join(repo, 'src')).generate(canary=False, stub=stub)
        w = os.path.join(d, 'v%d' % _); os.makedirs(w)
        r = verusrun.run_verus(g, os.path.join(w, 'store.rs'), 0, 20)
        new = {k: v for k, v in r.rejected_fns.items() if k not in stub}
        if not new:
            break
        stub.update(new)
    fails = [(f['clause'] or 'body', f['fn']) for f in r.failures if (f['clause'] or 'body', f['fn']) not in known]
    hard = [(f['clause'] or 'body', f['fn']) for f in r.failures if (f['clause'] or 'body', f['fn']) not in known and f.get('clause_kind') in ('ensures', 'requires')]
    lost = [k for (k, _, _) in g.lost] + list(stub.keys())
    out.append('verus: verified=%d failed=%s lost/stubbed=%s soft=%d' % (r.verified, fails, lost, len(r.soft)))
    alarm = bool(hard)
    proof_steps_only = bool(fails) and not hard
    # witness: all suites
    ww = os.path.join(d, 'w'); os.makedirs(ww)
    allsuites = sorted(set(s for v in witness.SUITES.values() for s in v))
    res = witness._run(repo, 'search:' + ','.join(allsuites), ww, timeout=1800)
    if res.get('found'):
        case = res.get('case')
        cf = os.path.join(ww, 'case.txt'); open(cf, 'w').write(case)
        again = [witness._run(repo, 'replay:' + cf, ww) for _ in range(2)]
        if all(a.get('found') for a in again):
            alarm = True
            out.append('witness: HIT %s %s exp=%s got=%s' % (res.get('suite'), case, str(res.get('expected'))[:150], str(res.get('observed'))[:150]))
        else:
            out.append('witness: hit %s did not reproduce (discarded)' % case)
    else:
        out.append('witness: none %s' % (res.get('note', '')[:200]))
    if proof_steps_only and any(x.startswith('witness: HIT') for x in out):
        alarm = True
    # kani: all groups
    kw = os.path.join(d, 'k'); os.makedirs(kw)
    for h in kanirun.run_harnesses(repo, list(kanirun.GROUPS.keys()), 'quick', kw, 0):
        bad = [o['id'] for o in h.failed_obligations if (o['id'], h.module + '::' + h.name) not in known]
        if h.status == 'failed' and bad:
            alarm = True
            out.append('kani: FAILED %s %s' % (h.name, bad))
        elif h.status == 'undecided':
            out.append('kani: undecided %s %s' % (h.name, h.reason[:100]))
    print(('!!! ALARM ' if alarm else 'ok ') + name + ' :: ' + ' | '.join(out))
finally:
    shutil.rmtree(d, ignore_errors=True)
