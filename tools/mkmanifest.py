#!/usr/bin/env python3
"""writes MANIFEST.json from lib/propcfg.py and the per-property texts below"""
import json, os, sys
HERE = os.path.dirname(os.path.abspath(__file__))
sys.path.insert(0, os.path.join(HERE, '..', 'lib'))
from propcfg import PROPS, TEXT
checks = []
for pid in sorted(PROPS):
    t = TEXT[pid]
    checks.append(dict(
        property_id=pid,
        quick_cmd='./check %s --tier quick' % pid,
        thorough_cmd='./check %s --tier thorough' % pid,
        evidence_file='/verif/evidence/%s.json' % pid,
        replay_cmd_template='./check %s --replay {path}' % pid,
        engine=t['engine'],
        level_claimed=dict(category='proof', text=t['level'], design_ref=t['ref']),
        level_note=t['note'],
        technique=t['technique'],
    ))
m = dict(
    version=1,
    setup_cmd='true',
    hooks=dict(guard='none (no source hooks: Verus reads function texts extracted from /repo/src; Kani harness modules live in /verif/kani and are attached to a scratch copy of the working tree with `#[cfg(kani)] #[path=..] mod` lines)',
               enable='n/a (cfg(kani) is set by cargo kani on the scratch copy only)',
               baseline_off_cmd='cd /repo && cargo test --workspace --no-fail-fast --offline',
               source_commits=[], add_only=True),
    engines=[
        dict(name='verus', path='/verif/lib/vx.py + /verif/lib/verusrun.py + /verif/contracts/store.vt', serves_properties=sorted(PROPS),
             kind_free_text='deductive verification (Verus 0.2026.09.13 / Z3) of the real function texts, extracted mechanically on every run, against requires/ensures/invariants; unbounded'),
        dict(name='kani', path='/verif/lib/kanirun.py + /verif/kani/*.rs', serves_properties=sorted(p for p in PROPS if PROPS[p].get('kani')),
             kind_free_text='Kani 0.68 / CBMC on a scratch copy of the real crate: loop-free full-domain harnesses (complete) and labelled bounded stand-ins'),
    ],
    checks=checks,
    not_applicable=[dict(property_id='C13', reason='deadlock freedom of the whole API under all interleavings is a whole-program liveness property: function contracts in Verus (partial correctness, no model of guard scopes) or Kani (no threads, no termination) cannot express "every call returns"; the one hang it names is reported as known finding F-C14-1 under C14 (DESIGN.md 4-C13)')],
    notes='known findings: /verif/known_findings.txt; design: /verif/DESIGN.md',
)
json.dump(m, open(os.path.join(HERE, '..', 'MANIFEST.json'), 'w'), indent=1)
print('MANIFEST.json written, %d checks' % len(checks))
