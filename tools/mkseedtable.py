#!/usr/bin/env python3
"""rewrites section 9 of DESIGN.md from seeded/*/meta.json"""
import json, os, re, glob
HERE = os.path.dirname(os.path.abspath(__file__))
rows = []
for d in sorted(glob.glob(os.path.join(HERE, '..', 'seeded', 'C*'))):
    m = json.load(open(os.path.join(d, 'meta.json')))
    rows.append('| %s | %s | %s | %s | %s |' % (m['id'], m['breaks'], m['summary'].replace('|', '/'), m['needs'].replace('|', '/'), m['detected_by'].replace('|', '/')))
benign = sorted(os.path.basename(x)[:-5] for x in glob.glob(os.path.join(HERE, '..', 'seeded', 'benign', '*.diff')))
text = '''## 9. Seeded changes: which check catches which change

Independent sub-agents, given only the text of one property and a scratch worktree (nothing from
`/verif`), each produced a change that breaks the property while compiling and passing the 46
tests, plus a demonstration. Each was re-confirmed in a fresh scratch worktree
(`tools/seedcheck.sh`: suite with change 46/46, demonstration fails with the change and passes
without it) and is kept under `seeded/<id>/` (`patch.diff`, the demonstration, `meta.json`).
`tools/seedrun.sh` re-runs, for every seeded change, the check of the property it breaks against a
scratch copy with the patch applied. All %d are reported as VIOLATION by the check of the property
they were written against. Several were missed at first; what was strengthened because of them is
listed after the table.

| id | breaks | change | needs | caught by |
|---|---|---|---|---|
%s

What the seeded changes made me strengthen (each was a miss or an "undecided" before):

* **C03-1 / C07-1 (swap_remove in unsubscribe)**: the closure anchors are lost → tolerant extraction
  (only the properties with clauses in the lost function become undecided) + the witness suite `subs`
  checks the registration order of the remaining subscribers; the unsubscribe clauses are tagged C03
  and C07 as well as C09.
* **C04-1 / C06-1 (send outside the dispatch lock)**: only Kani sees guard scopes; the lock
  obligations are tagged C06 too (single producer is what `send`'s contract relies on).
* **C09-1 = C04-2 = C14-1 = C15-1 = C10-2 (clear_subscribers only on the Exit path; found five times
  independently)**: the loop postcondition carries C09, C04, C14, C10; C15 *includes* C04.
* **C10-1 (Exit sent through the subscription channel on release)**: `clear_resource` got the channel
  token and the clause `O-C10-release-touches-nothing-queued`; witness suite `channeled`.
* **C02-1 (deferred send), C05-2 (next_power_of_two)**: Verus rejects the changed function → per-function
  stubbing; witness suite `block` (reducer parked, queue full: one more dispatch must wait).
* **C19-1 (join decided by thread name), C19-2 (process-wide static)**: `stop` is tagged C19, the
  process-wide-state scan, witness suite `twostores`.
* **C03-2 (Err arm clears need_notify)**: loop clauses carry the properties of all postconditions
  of their function.
* **C16-2 (on_unsubscribe clears last_value)**: census of accesses to the mutex-protected cells — an
  access outside every function under contract makes the dependent properties undecided.
* **C17-2 (loop skips do_reduce without reducers)**: the loop clauses are tagged C17 (the loop is what
  "uses the configured reducers and middlewares").
* **C07-2 (reducer list taken out of the mutex)**: witness suite `latereg` (registration from another
  thread while an action is being reduced).
* **C18-3**: the counting clauses of `send` are tagged C18.
* **C11-2 (try_lock on the pool), C02-2 (is_full)**: stand-ins for `Mutex::try_lock` (may fail at any
  time) and `Sender::is_full/is_empty`, so that Verus decides these instead of rejecting them.
* **C04-3 / C15-2 (early return when the sender slot is empty)**: the lock/take rewrites of the cells
  are unit-wide rather than per function.
* **C09-2 (release outside the subscribers lock)**: Kani obligation `O-C09-k-release-under-lock`.
* **C11-3 (all Function effects batched into one job), C10-3 (forwarding skipped when the queue is full),
  C14-2 (Exit sent with a non-blocking try_send)**: the changed functions leave the Verus subset (stubbed, property
  undecided); the witness suites got the missing scenarios (effect kinds Function/Action in `pipeline`, `overfill` in
  `channeled`, `late_consumer` in `iter`).
* **C18-4 (snapshot reads the wrong counter)**: the Kani harness `metrics_snapshot_copies`.
* **C09-3 (clear_subscribers releases outside the lock)**: Kani `clear_releases_under_lock` + witness scenario
  `stoprace` (unsubscribe from another thread while stop() is releasing).
* **C07-3 = C03-3 (do_notify walks the live list by index)**: witness scenario `selfunsub` (a subscriber that
  unsubscribes itself while being notified; the others must still see every action).
* **C16-3 (subscribe_with_selector primes last_value)**: witness scenario through a running store
  (`selector store vals=..`), not only on a bare `SelectorSubscriber`.
* **C10-4 (delivery loop drops a message when its private backlog is at 16)**: `overfill` with capacity 40;
  `ReceiverChannel::try_recv` put under contract.
* **C02-3 (Store::dispatch deferred to the pool on pool threads)**: witness scenario `reentrant` (dispatch through
  the `Store` trait from a subscriber callback with every pool worker busy).
* **C05-3 (close() sends Exit outside the lock)**: the Kani lock group is now also run for C05 (its obligations
  are tagged C05) + witness scenario `closerace`.
* **C01-4 (write-back with try_lock)**: witness scenario `readerrace` (a reader parked inside `State::clone`, holding
  the state cell, while the reduced state is written back).
* **C15-3 (drop only closes while unwinding)**: `std::thread::panicking` got an assumed specification that may answer
  anything and `close` was added to the callees of `drop`, so Verus decides it (`O-C15-drop-is-stop`).
* **C19-3 (tasks on a process-wide pool)**: witness scenario `sharedpool` (2048 blocked tasks of one store; a task and
  a thunk of another store must still run).
* **C10-5 (join skipped by thread name)**: witness scenario `crossunsub` (unsubscribe of a lagging channeled subscriber
  from another channeled subscriber's callback).
* **C04-4, C06-4, C17-4**: caught by what was already there (witness `twostores`, Kani
  `O-C06-k-ddispatch-err-iff-refused`, witness `builder`).
* **C09-4 (snapshot of the subscriber list hoisted above the before_dispatch hooks)**: sequentially equivalent, so
  Verus accepts it; witness scenario `midhook` (unsubscribe while the middleware is parked in before_dispatch).
* **C12-5 (vetoed action returns no effect vector, do_effect skipped), C18-6 (do_effect only when notifying)**:
  witness scenario `storepipe`: the whole pipeline through a running store against the reference semantics, for every
  verdict triple of one middleware (and 192 pairs), seven reducer chains; the `loop` suite is now also run for C11/C12.
* **C05-4 = C03-4 (Effect::Action dispatched inline; C11-1 again)**: witness scenario `effectaction` (queue full, a
  producer waiting, the reducer emits Effect::Action: the store must keep draining); stop clauses tagged C11 (C11-5).
* **C06-5 (blocking recv in the DropOldest arm), C04-5 (Store::stop forwards to close)**: both were rejected by Verus for a
  missing ghost argument only; `recv` (declared a blocking call) and `close` were added to the callees of `send` and of the
  trait method, and Verus now decides them.
* **C15-5 (close keeps the sender when the marker is refused)**: `lock_close` now lets the channel answer Ok or Err.
  **C17-6 (add_middleware de-duplicates by identity)**: the builder witness got the letter `D` (the same instance again).
  **C19-5 (on_unsubscribe skipped when the Arc has other holders)**: witness scenario `sharedrelease`.
  **C06-6 (close() spinning on a refused marker under the dispatch lock)**: the `balance` suite runs close() and a racing
  dispatch in bounded threads — with a drop policy neither may wait for the parked reducer.
* Also not kept: `do_notify` swallowing a panicking subscriber with `catch_unwind` (written against C16): callbacks that
  panic are outside every statement.
* Not kept from the last wave: evaluating the selector under the `last_value` lock (a panicking selector then poisons the
  lock) — callbacks that panic are outside the statement of C16, the check holds on it.
* One change of wave 7 was *not* kept: dropping `need_dispatch = true` from the Dispatch arm of `do_reduce` only
  changes chains that mix Keep and Dispatch, which the quantifier of C03 leaves unspecified; the checks hold on it by
  design (`flags_ok` pins the decision for unanimous chains only).
* **C18-5 (error_occurred booked when an open store's channel refuses an action)**: the counter part of
  `O-C02-dispatch-open` was not tagged C18: split out as `O-C18-dispatch-open-counts-nothing`; Kani
  `O-C18-k-(d)dispatch-open-no-error`; the lock group is now also run for C18.

Harmless edits (`seeded/benign/*.diff`; `b*` written by me, `a_*` by sub-agents that were given the property texts and asked for behaviour-preserving refactors of one area each): %s. They compile, pass the suite, keep
every property. `tools/benignfast.py` runs, per patch, the Verus unit, every witness suite and every Kani group against a scratch
copy with the patch applied, with the verdict logic of `check`: none of the %d raises an alarm (last full run: 198 of 198 ok, the 12 of the last round run separately: 12 of 12 ok); the
first 19 were also run through all 18 checks with `tools/benignrun.sh` (no VIOLATION line).
Most verify completely (exit 0 everywhere); where an edit leaves the Verus subset or loses an anchor the
properties of that function end *undecided* (exit 2), never as an alarm: `b10_drain_loop` (`Vec::drain`),
`b13_decoy_loops_and_closures` (an unrelated closure with `x * 2`, whose overflow Verus cannot exclude:
panic-freedom is not a listed property), `b19_release_in_reverse_order` (`while let Some(s) = subscribers.pop()`
instead of the `for` loop). Alarms these edits raised with earlier versions, and what was corrected — in
the machinery, never in the properties:

* a metric call moved relative to a callback (`b2`) → metric events left the trace; additive counters;
* the state published after the effects but before the notification (`b4`) → `O-C08-published-before-notify`
  became a precondition of `do_notify` instead of a position in a trace;
* a decoy `let total = effects.len();` in front of the real one (`b7`) → the ghost capture was inserted at the
  wrong place and six properties were reported violated → usage-based binds, regex selectors, `//@before_loop`;
* `x * 2` in an unrelated closure (`b13`) → arithmetic/std-precondition failures outside named clauses are
  classed undecided for that function;
* subscribers released in reverse order at shutdown (`b19`) → the witness suite `loop` compared the order of the
  release events, which no property states → compared as a set;
* `close()` rewritten with a named guard, `match sender.take()`, early return and an explicit `drop(sender)`
  (`a_b1c_1`, written by a sub-agent asked for harmless refactors) → two alarms at once: Verus ignored the write through
  the named guard and reported `O-C04-close-closes` as failed, and the Kani stub that leaks the crossbeam sender in
  `drop(tx)` also leaked the guard in `drop(sender)`, so `O-C04-k-close-unlocks` failed → writes through guards that no
  rewrite rule covers now make the function undecided; the stub leaks only values of the sender's type;
* the Exit marker sent after the sender slot has been emptied under the lock, and subscribers released after the list has
  been detached under the lock (`b32`, `b33`, found by review of my own Kani obligations) → "under the lock" became
  "under the lock, or after it has been taken out of the shared cell under the lock";
* *equivalent mutants* (`e_*`, written by sub-agents asked for small suspicious-looking edits that cannot violate any
  property; 7 of 24 raised an alarm, all corrected in the contracts):
  the `break` after the Exit marker dropped from the reducer loop (nothing can follow the marker: the consumer loops now
  call `recv_exit_last`, whose assumed contract adds exactly that rely, guaranteed by the proved clauses of `close`);
  `need_dispatch = true` dropped from the Dispatch arm (only mixed chains change: the loop invariant is now pinned for
  unanimous prefixes only, like the postcondition); `subscriber.on_unsubscribe()` instead of `s.on_unsubscribe()` under
  `Arc::ptr_eq(s, &subscriber)` (same allocation ⇒ same subscriber id, now part of the `ptr_eq` stand-in);
  `with_reducer` no longer clearing the opt-out flag (unobservable next to a non-empty reducer list: the builder view
  now holds the opt-out *in effect*); the default `before_effect` answering DoneAction (meaningless in that hook);
  the explicit `take()` dropped from `Drop for StateIteratorSubscriber` (my clause on drop glue was pointless and was
  removed); `last_value.as_ref() == Some(&selected)` (PartialEq on a generic type is uninterpreted for Verus: any
  comparison of `Output` values other than the rewritten one makes `on_notify` undecided, `//@forbid`);
* a second round of equivalent mutants (5 of 24 raised an alarm): `Effect::Function` sent through `dispatch_thunk` with an
  ignored dispatcher (the witness compared the entry point: now only the number of hand-overs, thunks at least as many);
  `Drop for StoreImpl` without its `close()` (unreachable with an open store: the reducer job owns a handle until the loop
  has ended — now the precondition A10 of that contract); `next()` leaving the release of the subscription to `Drop`
  (the clause now requires the receiver gone and "released at most once, here or at drop"); DropOldest counting an evicted
  item of any kind (an evicted marker cannot occur, A2b: its count is left open); `unsubscribe()` called twice in
  `Drop for StateIterator` (the record of released subscriptions is idempotent, like the call);
* a third round (5 of 18): the effect hand-over loop bounded by a count, the release loop over `.iter().rev()`, the reducer
  loop keeping a local copy of the state (always updated, unlike the seeded change C01-2): the selectors still found the
  loops, but the inductive invariants no longer went through — a failed loop invariant or proof step *alone* is now
  undecided unless the witness search produces a concrete failing input (on the 83 seeded changes this loses nothing:
  every change that is caught by invariants only also has a concrete input); a blocking `send` for the DropOldest retry
  (it can never wait: `blocking` now counts the calls that *may* wait — a blocking send on a full queue, a blocking
  receive); `next()` leaving the receiver to `Drop` (harmless once the subscription handle, the last owner of the sending
  end, is gone: the clause asks for one of the two);
* a fourth round (3 of 18): `middleware_executed(count.max(1))` (a count of 0 never reaches the method: the Kani harness now
  takes n >= 1, and a separate harness asks for n = 0 only that nothing decreases); `while let Some(tx) = ...take()` in
  `close()` (a loop the contract has no invariant for havocs everything: a function with more loops than the template has
  loop contracts for is now lost, not verified); the disconnection arm of `next()` returning at once (unreachable while the
  iterator holds its subscription: nothing is asked for that case any more);
* a fifth round (1 of 18): `Drop for StateIterator` releasing the subscription only inside `if let Some(rx) = self.iter_rx.take()`
  — equivalent only because `next()` never leaves a subscription behind without its receiver, while an earlier mutant
  (`next()` leaving the release to `Drop`) is equivalent only because `drop` handles exactly that state: two edits that are
  each harmless and mutually incompatible. A modular contract has to pick an interface; to raise no alarm on either, the
  clause of `drop` is silent about the state "subscription without receiver" and the clause of `next()` allows leaving the
  release to `drop`; the price is that the two edits *together* (a real leak) would verify — recorded here as a known gap;
* a sixth round (0 of 12) and a seventh (1 of 12): `Drop for DroppableStore` calling `stop()` only while the pool slot is still
  filled — equivalent because the slot is emptied only by `stop()` (or the drop of the last handle) after `close()`, so
  "pool gone" implies "sender gone" and `stop()` would do nothing: that store invariant is now the precondition A11 of the
  contract of `drop` (the seeded changes C15-1..5 are still reported);
* (found by review, not by an edit) the model pinned `action_executed`, `effect_executed`, `state_notified`,
  `subscriber_notified` and "the shutdown marker counts as received" → only the counters of the balance
  equations are modelled, the marker may or may not be booked.
''' % (len(rows), '\n'.join(rows), ', '.join('`%s`' % b for b in benign), len(benign))
p = os.path.join(HERE, '..', 'DESIGN.md')
s = open(p).read()
a = s.index('## 9. Seeded changes: which check catches which change')
b = s.index('---------------------------------------------------------------------------------', a)
s = s[:a] + text + '\n' + s[b:]
open(p, 'w').write(s)
print('section 9 rewritten with %d rows' % len(rows))
