#!/usr/bin/env python3
"""rewrites section 9 of DESIGN.md from seeded/*/meta.json"""
import json, os, re, glob
HERE = os.path.dirname(os.path.abspath(__file__))
rows = []
for d in sorted(glob.glob(os.path.join(HERE, '..', 'seeded', 'C*'))):
    m = json.load(open(os.path.join(d, 'meta.json')))
    rows.append('| %s | %s | %s | %s | %s |' % (m['id'], m['breaks'], m['summary'].replace('|', '/'), m['needs'].replace('|', '/'), m['detected_by'].replace('|', '/')))
benign = sorted(os.path.basename(x)[:-5] for x in glob.glob(os.path.join(HERE, '..', 'seeded', 'benign', '*.diff')))
text = '''## 9. Seeded changes: which check catches which change

Independent sub-agents, given only the text of one property and a scratch worktree (nothing from
`/verif`), each produced a change that breaks the property while compiling and passing the 46
tests, plus a demonstration. Each was re-confirmed in a fresh scratch worktree
(`tools/seedcheck.sh`: suite with change 46/46, demonstration fails with the change and passes
without it) and is kept under `seeded/<id>/` (`patch.diff`, the demonstration, `meta.json`).
`tools/seedrun.sh` re-runs, for every seeded change, the check of the property it breaks against a
scratch copy with the patch applied. All %d are reported as VIOLATION by the check of the property
they were written against. Several were missed at first; what was strengthened because of them is
listed after the table.

| id | breaks | change | needs | caught by |
|---|---|---|---|---|
%s

What the seeded changes made me strengthen (each was a miss or an "undecided" before):

* **C03-1 / C07-1 (swap_remove in unsubscribe)**: the closure anchors are lost → tolerant extraction
  (only the properties with clauses in the lost function become undecided) + the witness suite `subs`
  checks the registration order of the remaining subscribers; the unsubscribe clauses are tagged C03
  and C07 as well as C09.
* **C04-1 / C06-1 (send outside the dispatch lock)**: only Kani sees guard scopes; the lock
  obligations are tagged C06 too (single producer is what `send`'s contract relies on).
* **C09-1 = C04-2 = C14-1 = C15-1 = C10-2 (clear_subscribers only on the Exit path; found five times
  independently)**: the loop postcondition carries C09, C04, C14, C10; C15 *includes* C04.
* **C10-1 (Exit sent through the subscription channel on release)**: `clear_resource` got the channel
  token and the clause `O-C10-release-touches-nothing-queued`; witness suite `channeled`.
* **C02-1 (deferred send), C05-2 (next_power_of_two)**: Verus rejects the changed function → per-function
  stubbing; witness suite `block` (reducer parked, queue full: one more dispatch must wait).
* **C19-1 (join decided by thread name), C19-2 (process-wide static)**: `stop` is tagged C19, the
  process-wide-state scan, witness suite `twostores`.
* **C03-2 (Err arm clears need_notify)**: loop clauses carry the properties of all postconditions
  of their function.
* **C16-2 (on_unsubscribe clears last_value)**: census of accesses to the mutex-protected cells — an
  access outside every function under contract makes the dependent properties undecided.
* **C17-2 (loop skips do_reduce without reducers)**: the loop clauses are tagged C17 (the loop is what
  "uses the configured reducers and middlewares").
* **C07-2 (reducer list taken out of the mutex)**: witness suite `latereg` (registration from another
  thread while an action is being reduced).
* **C18-3**: the counting clauses of `send` are tagged C18.
* **C11-2 (try_lock on the pool), C02-2 (is_full)**: stand-ins for `Mutex::try_lock` (may fail at any
  time) and `Sender::is_full/is_empty`, so that Verus decides these instead of rejecting them.
* **C04-3 / C15-2 (early return when the sender slot is empty)**: the lock/take rewrites of the cells
  are unit-wide rather than per function.
* **C09-2 (release outside the subscribers lock)**: Kani obligation `O-C09-k-release-under-lock`.

Harmless edits (`seeded/benign/*.diff`, written by me): %s. They compile, pass the suite, keep
every property, and no check raises an alarm on them (they verify completely, except
`b10_drain_loop`, whose `Vec::drain` is outside the Verus subset: `do_effect` is stubbed, C11/C12
become undecided — exit 2 — and the witness suites agree with the real code). Two of them were
alarms with the first version of the contracts (a metric call moved relative to a callback; the
state published after the effects but before the notification) and led to the order-insensitive
metric counters and to `O-C08-published-before-notify` being a precondition of `do_notify` instead
of a position in a trace.
''' % (len(rows), '\n'.join(rows), ', '.join('`%s`' % b for b in benign))
p = os.path.join(HERE, '..', 'DESIGN.md')
s = open(p).read()
a = s.index('## 9. Seeded changes: which check catches which change')
b = s.index('---------------------------------------------------------------------------------', a)
s = s[:a] + text + '\n' + s[b:]
open(p, 'w').write(s)
print('section 9 rewritten with %d rows' % len(rows))
