#!/usr/bin/env python3
"""dev tool: tools/wrun.py <Cxx> [repo] -- run the witness suites of a property against a tree"""
import sys, os, tempfile, shutil, json
sys.path.insert(0, os.path.join(os.path.dirname(os.path.abspath(__file__)), '..', 'lib'))
import witness
prop = sys.argv[1]
repo = sys.argv[2] if len(sys.argv) > 2 else '/repo'
work = tempfile.mkdtemp(prefix='wrun_')
try:
    r = witness.search(prop, None, repo, work, 0)
    r.pop('bounds', None)
    print(json.dumps(r, indent=1)[:3000])
finally:
    shutil.rmtree(work, ignore_errors=True)
