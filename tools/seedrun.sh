#!/bin/bash
# tools/seedrun.sh [ids...] -- run the check of the property each seeded change breaks, against a scratch copy with the patch applied
cd /verif
ids=${@:-$(ls seeded | grep -v benign)}
for id in $ids; do
  prop=$(python3 -c "import json;print(json.load(open('seeded/$id/meta.json'))['breaks'].split()[0])")
  d=$(mktemp -d /tmp/sr_XXXX)
  rsync -a --exclude target --exclude .git /repo/ $d/
  (cd $d && patch -p1 -s < /verif/seeded/$id/patch.diff) || { echo "$id: PATCH FAILED"; rm -rf $d; continue; }
  out=$(./check $prop --repo $d 2>&1)
  rc=$?
  echo "$id ($prop): rc=$rc $(echo "$out" | grep -c '^VIOLATION') violation line(s): $(echo "$out" | grep '^VIOLATION' | head -2 | sed 's/.*replay=\/verif\/replay\///' | tr '\n' ' ')"
  rm -rf $d
done
