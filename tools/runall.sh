#!/bin/bash
# tools/runall.sh [tier] -- every claimed check against /repo (regenerates /verif/evidence/*.json)
cd /verif
tier=${1:-quick}
for p in C01 C02 C03 C04 C05 C06 C07 C08 C09 C10 C11 C12 C14 C15 C16 C17 C18 C19; do
  out=$(./check $p --tier $tier 2>&1); rc=$?
  echo "$p rc=$rc $(echo "$out" | tail -1)"
  echo "$out" | grep -E "^(VIOLATION|UNDECIDED)" | head -3
done
