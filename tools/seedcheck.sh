#!/bin/bash
# tools/seedcheck.sh <dir with patch.diff and demo> <demo file name> -- confirm a seeded change in a fresh scratch worktree:
#   suite passes with the change, demo fails with it, demo passes without it.
set -u
src=$1; demo=$2
wt=$(mktemp -d /tmp/sc_XXXX); rmdir $wt
git -C /repo worktree add -q --detach $wt HEAD || exit 3
export CARGO_TARGET_DIR=/tmp/sc_target
cd $wt
git apply $src/patch.diff || { echo "PATCH DOES NOT APPLY"; git -C /repo worktree remove --force $wt; exit 3; }
suite=$(cargo test --offline 2>&1 | grep -E "^test result" | head -1)
echo "suite with change: $suite"
mkdir -p tests; cp $src/$demo tests/; tn=$(basename ${demo%.rs})
d1=$(cargo test --offline --test $tn 2>&1 | grep -E "^test result" | head -1)
echo "demo with change: $d1"
git apply -R $src/patch.diff
d2=$(cargo test --offline --test $tn 2>&1 | grep -E "^test result" | head -1)
echo "demo without change: $d2"
cd /
git -C /repo worktree remove --force $wt
