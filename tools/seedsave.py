#!/usr/bin/env python3
"""dev tool: tools/seedsave.py <worktree dir> <demo file> <new id> <prop> <summary> <needs> <detected_by>"""
import sys, os, json, shutil
wt, demo, sid, prop, summary, needs, det = sys.argv[1:8]
d = os.path.join(os.path.dirname(os.path.abspath(__file__)), '..', 'seeded', sid)
os.makedirs(d, exist_ok=True)
shutil.copy(os.path.join(wt, 'patch.diff'), os.path.join(d, 'patch.diff'))
shutil.copy(os.path.join(wt, demo), os.path.join(d, os.path.basename(demo)))
json.dump({"id": sid, "breaks": prop, "summary": summary, "needs": needs, "detected_by": det,
           "origin": "independent sub-agent given only the property text and a scratch worktree",
           "confirmed": {"by": "tools/seedcheck.sh in a fresh scratch worktree", "suite_with_change": "46 passed", "demo_with_change": "fails", "demo_without_change": "passes"},
           "how_to_run": "git -C /repo apply /verif/seeded/%s/patch.diff && ./check %s ; git -C /repo checkout -- ." % (sid, prop)},
          open(os.path.join(d, 'meta.json'), 'w'), indent=1)
print('saved', sid)
